package main

// C03 (narrow): structural clauses of "what Create stores is what queries load back ... after Create every
// in-memory record carries the primary key and database-generated defaults of the row that stores it, in
// slice order".  The value-level round trip (setters/valuers per kind, driver conversions) is NOT decided;
// what is decided are the places where the code pairs a stored value with the in-memory record or a column
// with its scanned value:
//
//   backfill-order   LastInsertId back-fill: iteration direction, sign of the id step and the dialect's
//                    LastInsertIDReversed flag agree; the id advances exactly when a record received it
//   fill-pair        every default / auto-time value written into VALUES for a zero field is also set on the
//                    in-memory record (and the other way round), in the slice arm and in the struct arm
//   scan-set         scanIntoStruct sets a column only from the value scanned for the SAME column index
//   returning-cursor (shared with C12) RETURNING rows are aligned with the records per returned row
//   map-complete     (shared with C15) reading into maps stores every column of every row

import (
	"go/ast"
	"go/token"
	"go/types"
	"strings"

	"golang.org/x/tools/go/types/typeutil"
)

func init() {
	register("C03", checkC03,
		"Narrow structural clauses of C03 decided on the current source: (backfill-order) in the create executor every loop that hands out LastInsertId-derived keys iterates downwards with a negative step under LastInsertIDReversed and upwards with a positive step otherwise, assigns the key only to records whose key is zero and advances the id in the same branch; the map-slice arm pre-adjusts the id under LastInsertIDReversed; (fill-pair) in ConvertToCreateValues every field.Set of a default / auto-time value on the in-memory record is paired, in the same branch, with the VALUES cell taking that value (directly or by re-reading the field), and every cell overwritten with a non-field value is paired with such a Set, in both the slice and the struct arm; (scan-set) every Set in scanIntoStruct receives values[idx] of the loop's own index; (returning-cursor) gorm.Scan advances the record cursor only under rows.Next(); (map-complete) scanIntoMap stores an entry for every column on every iteration path. NOT decided: equality of values through the per-kind setters/valuers and serializers, driver conversions, time precision, naming/embedded-prefix resolution, LastInsertId semantics of the database.")
}

func checkC03(c *Ctx) {
	p := c.P
	checkC03Backfill(c)
	checkC03FillPair(c)
	checkC03ScanSet(c)
	checkC03NullIffNil(c)
	checkC03BytesArm(c)
	checkC03LookupOrder(c)
	checkC03MapRows(c)
	checkC03FreshRow(c)
	checkC03ValueOwned(c)
	checkSerializerFresh(c, c.Rule("C03.serializer-fresh", "after the record took the scanned serializer (or a shallow copy) from the pooled holder, the holder gets a new one on every path", 2), nil)
	checkDoNothingScanMode(c, c.Rule("C03.returning-mode", "the RETURNING scanner skips filled records only for ON CONFLICT DO NOTHING", 1))
	checkReturningCursor(c, c.Rule("C03.returning-cursor", "gorm.Scan advances the record cursor only under rows.Next()", 4))
	checkC15MapComplete(c, c.Rule("C03.map-complete", "scanIntoMap stores an entry for every column on every path of an iteration", 1))
	_ = p
}

// ---- backfill-order ----

func checkC03Backfill(c *Ctx) {
	p := c.P
	r := c.Rule("C03.backfill-order", "LastInsertId back-fill: direction, step sign and LastInsertIDReversed agree; the id advances with the assignment", 3)
	factory := p.FuncDecl(pkgCallbacks, "Create")
	resultI := p.StdNamed("database/sql", "Result")
	var exec *FuncSrc
	for _, l := range p.AllLits(factory) {
		if l.Parent == factory {
			exec = l
		}
	}
	if exec == nil {
		r.Bad(factory.Name(), "executor", factory.Body.Pos(), "Create no longer returns an executor literal")
		return
	}
	c.Touch(exec)
	info := exec.Pkg.TypesInfo
	// the id variable: first result of Result.LastInsertId()
	var idObj types.Object
	ast.Inspect(exec.Body, func(n ast.Node) bool {
		as, ok := n.(*ast.AssignStmt)
		if !ok || len(as.Rhs) != 1 || len(as.Lhs) != 2 {
			return true
		}
		if ce, ok := unparen(as.Rhs[0]).(*ast.CallExpr); ok {
			if fn, _ := typeutil.Callee(info, ce).(*types.Func); fn != nil && fn.Name() == "LastInsertId" {
				if sig := fn.Type().(*types.Signature); sig.Recv() != nil && types.Identical(sig.Recv().Type().Underlying(), resultI.Underlying()) {
					if id, ok := as.Lhs[0].(*ast.Ident); ok {
						idObj = info.ObjectOf(id)
					}
				}
			}
		}
		return true
	})
	if idObj == nil {
		r.Bad(exec.Name(), "LastInsertId", exec.Body.Pos(), "the create executor no longer reads LastInsertId; rule lost its anchor")
		return
	}
	gs := p.Guards(exec, nil)
	parents := parentMap(exec.Body)
	isID := func(e ast.Expr) bool {
		id, ok := unparen(e).(*ast.Ident)
		return ok && info.Uses[id] == idObj
	}
	reversedFact := func(pos token.Pos) (rev, known bool) {
		facts, live := gs.At(pos)
		if !live {
			return false, false
		}
		for f := range facts {
			if strings.HasSuffix(f, ".LastInsertIDReversed") {
				if strings.HasPrefix(f, "T:") {
					return true, true
				}
				if strings.HasPrefix(f, "F:") {
					return false, true
				}
			}
		}
		return false, false
	}
	nLoops := 0
	ast.Inspect(exec.Body, func(n ast.Node) bool {
		as, ok := n.(*ast.AssignStmt)
		if !ok || len(as.Lhs) != 1 || !isID(as.Lhs[0]) || (as.Tok != token.ADD_ASSIGN && as.Tok != token.SUB_ASSIGN) {
			return true
		}
		// enclosing loop
		var loop ast.Node
		for cur := ast.Node(as); cur != nil; cur = parents[cur] {
			switch parents[cur].(type) {
			case *ast.ForStmt, *ast.RangeStmt:
				loop = parents[cur]
			}
			if loop != nil {
				break
			}
		}
		if loop == nil {
			// the pre-adjustment of the map-slice arm: only under Reversed, and subtracting
			rev, known := reversedFact(as.Pos())
			r.Check(known && rev && as.Tok == token.SUB_ASSIGN, exec.Name(), "id pre-adjustment", as.Pos(), "subtracts (n-1) steps only under LastInsertIDReversed", "the id is adjusted outside a loop in a way that does not match LastInsertIDReversed: map records receive the keys of other rows")
			return true
		}
		nLoops++
		down := false
		switch l := loop.(type) {
		case *ast.ForStmt:
			if inc, ok := l.Post.(*ast.IncDecStmt); ok {
				down = inc.Tok == token.DEC
			} else if pa, ok := l.Post.(*ast.AssignStmt); ok {
				down = pa.Tok == token.SUB_ASSIGN
			}
		case *ast.RangeStmt:
			down = false
		}
		stepDown := as.Tok == token.SUB_ASSIGN
		rev, known := reversedFact(as.Pos())
		var problems []string
		if down != stepDown {
			problems = append(problems, "the loop runs "+map[bool]string{true: "downwards", false: "upwards"}[down]+" but the id step is "+map[bool]string{true: "negative", false: "positive"}[stepDown])
		}
		if _, isRange := loop.(*ast.RangeStmt); !isRange {
			if !known {
				problems = append(problems, "the loop is not decided by LastInsertIDReversed")
			} else if rev != down {
				problems = append(problems, "direction does not match LastInsertIDReversed="+boolStr(rev))
			}
			// the id advances in the branch that assigned it: same block contains a Set(..., id)
			paired := false
			if blk, ok := parents[as].(*ast.BlockStmt); ok {
				for _, st := range blk.List {
					ast.Inspect(st, func(x ast.Node) bool {
						if ce, ok := x.(*ast.CallExpr); ok {
							if sel, ok := ce.Fun.(*ast.SelectorExpr); ok && sel.Sel.Name == "Set" && len(ce.Args) >= 1 && isID(ce.Args[len(ce.Args)-1]) {
								paired = true
							}
						}
						return true
					})
				}
			}
			if !paired {
				problems = append(problems, "the id advances in a branch that did not assign it to a record (records that already have a key consume ids)")
			}
			// ... and only for records whose key is zero
			facts, _ := gs.At(as.Pos())
			zero := false
			for f := range facts {
				if strings.HasPrefix(f, "T:") && !strings.ContainsAny(f[2:], " .(") {
					if localFactIsZeroOfValueOf(exec, f[2:], as.Pos()) {
						zero = true
					}
				}
			}
			if !zero {
				problems = append(problems, "the key is assigned without testing that the record's key is zero")
			}
		}
		r.Check(len(problems) == 0, exec.Name(), "key back-fill loop", as.Pos(), "direction, step and LastInsertIDReversed agree; id advances with the assignment", "the generated keys are handed to the wrong records of a batch: "+strings.Join(problems, "; "))
		return true
	})
	if nLoops < 3 {
		r.Bad(exec.Name(), "back-fill loops", exec.Body.Pos(), "fewer than three LastInsertId back-fill loops found (map slice, reversed struct slice, forward struct slice)")
	}
}

// localFactIsZeroOfValueOf: the boolean local `name` is the second result of a <field>.ValueOf(...) call.
func localFactIsZeroOfValueOf(f *FuncSrc, name string, pos token.Pos) bool {
	defs := localDefs(f, name, pos)
	if len(defs) == 0 {
		return false
	}
	for _, d := range defs {
		ce, ok := unparen(d.rhs).(*ast.CallExpr)
		if !ok || d.idx != 1 {
			return false
		}
		sel, ok := ce.Fun.(*ast.SelectorExpr)
		if !ok || sel.Sel.Name != "ValueOf" {
			return false
		}
	}
	return true
}

// ---- fill-pair ----

func checkC03FillPair(c *Ctx) {
	p := c.P
	r := c.Rule("C03.fill-pair", "ConvertToCreateValues: values filled in for zero fields go to the VALUES cell and to the in-memory record together", 6)
	f := p.FuncDecl(pkgCallbacks, "ConvertToCreateValues")
	c.Touch(f)
	info := f.Pkg.TypesInfo
	fieldT := p.Named(pkgSchema, "Field")
	setF := p.Field(fieldT, "Set")
	valueOfF := p.Field(fieldT, "ValueOf")
	timeT := p.StdNamed("time", "Time")
	isFieldFn := func(e ast.Expr, fv *types.Var) (*ast.CallExpr, bool) {
		ce, ok := unparen(e).(*ast.CallExpr)
		if !ok {
			return nil, false
		}
		sel, ok := ce.Fun.(*ast.SelectorExpr)
		if !ok {
			return nil, false
		}
		v, _ := info.Uses[sel.Sel].(*types.Var)
		return ce, v == fv
	}
	isCell := func(e ast.Expr) bool {
		// values.Values[i][idx]
		ix, ok := unparen(e).(*ast.IndexExpr)
		if !ok {
			return false
		}
		ix2, ok := unparen(ix.X).(*ast.IndexExpr)
		return ok && strings.HasSuffix(canon(info, ix2.X), ".Values")
	}
	parents := parentMap(f.Body)
	blockOf := func(n ast.Node) *ast.BlockStmt {
		for cur := n; cur != nil; cur = parents[cur] {
			if b, ok := parents[cur].(*ast.BlockStmt); ok {
				return b
			}
		}
		return nil
	}
	nSet, nCell := 0, 0
	ast.Inspect(f.Body, func(n ast.Node) bool {
		switch x := n.(type) {
		case *ast.CallExpr:
			ce, ok := isFieldFn(x, setF)
			if !ok || len(ce.Args) != 3 {
				return true
			}
			nSet++
			target, val := canon(info, ce.Args[1]), canon(info, ce.Args[2])
			isTime := false
			if tv, ok := info.Types[ce.Args[2]]; ok {
				isTime = types.Identical(tv.Type, timeT)
			}
			blk := blockOf(x)
			paired := false
			if blk != nil {
				for _, st := range blk.List {
					as, ok := st.(*ast.AssignStmt)
					if !ok || len(as.Lhs) < 1 || !isCell(as.Lhs[0]) || len(as.Rhs) != 1 {
						continue
					}
					// a time value goes through the field's setter, which converts it to the field's own
					// representation (unix seconds / millis / nanos for integer fields): the cell must be
					// re-read from the record, the raw time is not what the record holds
					if canon(info, as.Rhs[0]) == val && !isTime {
						paired = true
					}
					if vo, ok := isFieldFn(as.Rhs[0], valueOfF); ok && len(vo.Args) == 2 && canon(info, vo.Args[1]) == target {
						paired = true
					}
				}
			}
			r.Check(paired, f.Name(), "record set => VALUES cell", x.Pos(), "the cell takes the same value (or re-reads the field of the same record)", "a default / auto-time value is set on the in-memory record but the VALUES cell of the row does not take what the record now holds (a time value has to be re-read through ValueOf, the setter converts it for integer time fields): the stored row differs from the record Create returns")
		case *ast.AssignStmt:
			if len(x.Lhs) != 1 || len(x.Rhs) != 1 || !isCell(x.Lhs[0]) || x.Tok != token.ASSIGN {
				return true
			}
			if _, ok := isFieldFn(x.Rhs[0], valueOfF); ok {
				return true
			}
			if ce, ok := unparen(x.Rhs[0]).(*ast.CallExpr); ok {
				if id, ok := ce.Fun.(*ast.Ident); ok && id.Name == "make" {
					return true
				}
			}
			nCell++
			val := canon(info, x.Rhs[0])
			blk := blockOf(x)
			paired := false
			if blk != nil {
				for _, st := range blk.List {
					ast.Inspect(st, func(y ast.Node) bool {
						if ce, ok := y.(*ast.CallExpr); ok {
							if sc, ok := isFieldFn(ce, setF); ok && len(sc.Args) == 3 && canon(info, sc.Args[2]) == val {
								paired = true
							}
						}
						return true
					})
				}
			}
			r.Check(paired, f.Name(), "VALUES cell => record set", x.Pos(), "the in-memory record is set to the same value", "a VALUES cell is filled with a value that is not written back to the in-memory record: after Create the record does not carry what the row stores")
		}
		return true
	})
	if nSet < 4 || nCell < 2 {
		r.Bad(f.Name(), "fill sites", f.Body.Pos(), "ConvertToCreateValues has fewer default/auto-time fill sites than the slice and struct arms need ("+itoa(nSet)+" Set, "+itoa(nCell)+" cell overwrites)")
	}
}

// ---- scan-set ----

func checkC03ScanSet(c *Ctx) {
	p := c.P
	r := c.Rule("C03.scan-set", "scanIntoStruct: every Set takes values[idx] of its own loop index", 2)
	f := p.MethodDecl(pkgGorm, "DB", "scanIntoStruct")
	c.Touch(f)
	info := f.Pkg.TypesInfo
	fieldT := p.Named(pkgSchema, "Field")
	setF := p.Field(fieldT, "Set")
	parents := parentMap(f.Body)
	n := 0
	ast.Inspect(f.Body, func(nd ast.Node) bool {
		ce, ok := nd.(*ast.CallExpr)
		if !ok || len(ce.Args) != 3 {
			return true
		}
		sel, ok := ce.Fun.(*ast.SelectorExpr)
		if !ok {
			return true
		}
		if v, _ := info.Uses[sel.Sel].(*types.Var); v != setF {
			return true
		}
		n++
		// enclosing range over the fields with key idx
		var key types.Object
		var valuesName string
		for cur := ast.Node(ce); cur != nil; cur = parents[cur] {
			if rs, ok := parents[cur].(*ast.RangeStmt); ok {
				if k, ok := rs.Key.(*ast.Ident); ok && key == nil {
					if tv, ok := info.Types[rs.X]; ok {
						if sl, ok := tv.Type.Underlying().(*types.Slice); ok && p.isNamedPtr(sl.Elem(), fieldT) {
							key = info.Defs[k]
						}
					}
				}
			}
		}
		okArg := false
		if ix, ok := unparen(ce.Args[2]).(*ast.IndexExpr); ok {
			if kid, ok := unparen(ix.Index).(*ast.Ident); ok && key != nil && info.Uses[kid] == key {
				if vid, ok := unparen(ix.X).(*ast.Ident); ok {
					valuesName = vid.Name
					if tv, ok := info.Types[ix.X]; ok {
						if sl, ok := tv.Type.Underlying().(*types.Slice); ok {
							if _, isIface := sl.Elem().Underlying().(*types.Interface); isIface {
								okArg = true
							}
						}
					}
				}
			}
		}
		_ = valuesName
		r.Check(okArg, f.Name(), "Set takes the value scanned for its own column", ce.Pos(), "values[idx] with idx the key of the loop over fields", "a column is set from "+exprShort(ce.Args[2])+", which is not the value scanned for the same column index: fields receive other columns' values")
		return true
	})
	if n < 2 {
		r.Bad(f.Name(), "Set calls", f.Body.Pos(), "scanIntoStruct has fewer than two Set calls (plain and join path)")
	}
}
