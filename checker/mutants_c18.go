package main

func init() {
	addMutants(
		Mutant{Name: "c18-begin-background", Property: "C18", Rule: "C18.origin", Edits: []Edit{{"finisher_api.go",
			"case TxBeginner:\n\t\ttx.Statement.ConnPool, err = beginner.BeginTx(tx.Statement.Context, opt)",
			"case TxBeginner:\n\t\ttx.Statement.ConnPool, err = beginner.BeginTx(context.Background(), opt)"},
			{"finisher_api.go", "import (\n\t\"database/sql\"", "import (\n\t\"context\"\n\t\"database/sql\""}}},
		Mutant{Name: "c18-begin-parent-context", Property: "C18", Rule: "C18.origin", Edits: []Edit{{"finisher_api.go",
			"case ConnPoolBeginner:\n\t\ttx.Statement.ConnPool, err = beginner.BeginTx(tx.Statement.Context, opt)",
			"case ConnPoolBeginner:\n\t\ttx.Statement.ConnPool, err = beginner.BeginTx(db.Statement.Context, opt)"}},
			Note: "uses the parent's statement context on the derived handle's pool (same value today, different after a Session{Context})"},
		Mutant{Name: "c18-prepare-todo", Property: "C18", Rule: "C18.origin", Edits: []Edit{{"prepare_stmt.go", "stmt, err := conn.PrepareContext(ctx, query)", "stmt, err := conn.PrepareContext(context.TODO(), query)"}}},
		Mutant{Name: "c18-stmtcontext-background", Property: "C18", Rule: "C18.origin", Edits: []Edit{{"prepare_stmt.go", "result, err = tx.Tx.StmtContext(ctx, stmt.Stmt).ExecContext(ctx, args...)", "result, err = tx.Tx.StmtContext(ctx, stmt.Stmt).ExecContext(context.Background(), args...)"}}},
		Mutant{Name: "c18-getinstance-background", Property: "C18", Rule: "C18.derive", Edits: []Edit{{"gorm.go", "Context:   db.Statement.Context,", "Context:   context.Background(),"}}},
		Mutant{Name: "c18-clone-drops-context", Property: "C18", Rule: "C18.derive", Edits: []Edit{{"statement.go", "\t\tContext:              stmt.Context,\n", ""}}},
		Mutant{Name: "c18-session-context-unconditional", Property: "C18", Rule: "C18.derive", Edits: []Edit{{"gorm.go", "\tif config.Context != nil {\n\t\ttx.Statement.Context = config.Context\n\t}\n", "\tif config.Context != nil || config.NewDB {\n\t\ttx.Statement.Context = config.Context\n\t}\n"}}},
		Mutant{Name: "c18-preloaddb-background-session", Property: "C18", Rule: "C18.sessions", Edits: []Edit{{"callbacks/preload.go", "tx := db.Session(&gorm.Session{Context: db.Statement.Context, NewDB: true,", "tx := db.Session(&gorm.Session{Context: context.Background(), NewDB: true,"},
			{"callbacks/preload.go", "import (\n\t\"fmt\"", "import (\n\t\"context\"\n\t\"fmt\""}}},
		Mutant{Name: "c18-saveassociations-todo-session", Property: "C18", Rule: "C18.no-background", Edits: []Edit{{"callbacks/associations.go", "tx := db.Session(&gorm.Session{NewDB: true}).Clauses(onConflict)", "tx := db.Session(&gorm.Session{NewDB: true, Context: context.TODO()}).Clauses(onConflict)"},
			{"callbacks/associations.go", "import (\n\t\"reflect\"", "import (\n\t\"context\"\n\t\"reflect\""}}},
		Mutant{Name: "c18-rawexec-contextless", Property: "C18", Rule: "C18.ctx-api", Edits: []Edit{{"callbacks/raw.go", "result, err := db.Statement.ConnPool.ExecContext(db.Statement.Context, db.Statement.SQL.String(), db.Statement.Vars...)", "result, err := db.Statement.ConnPool.(*sql.DB).Exec(db.Statement.SQL.String(), db.Statement.Vars...)"},
			{"callbacks/raw.go", "import (\n", "import (\n\t\"database/sql\"\n"}}},
	)
}
