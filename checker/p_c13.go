package main

// C13 — hooks run once per record, in documented order, in the operation's transaction.

import (
	"go/ast"
	"go/constant"
	"go/token"
	"go/types"
	"sort"
	"strings"

	"golang.org/x/tools/go/types/typeutil"
)

func init() {
	register("C13", checkC13,
		"Structural clauses of C13 decided on every site of the current source: (tables) the hook name tables agree - constants of schema.callbackType, the callbackTypes list, the case labels and MethodByName arguments of callBackToMethodValue, the bool fields of schema.Schema set through FieldByName, the hook interfaces of package callbacks and the hook methods invoked in executors; (sites) every hook invocation lies in a closure handed to callMethod by an executor of the right pipeline on the right side of the statement executor, under the matching Schema.<Hook> flag, with the callMethod call guarded by !SkipHooks and Error == nil, and its error reaching AddError; (order) BeforeSave precedes BeforeCreate/BeforeUpdate and AfterCreate/AfterUpdate precede AfterSave inside their phase; the pipeline registers begin < before-hooks < before-associations < statement < after-associations < after-hooks < commit; (dispatch) callMethod hands hooks a session of the operation's own handle, tries the whole value first, and in the slice arm calls the hook exactly once per element with CurDestIndex reset before and incremented each iteration; (skip) the column-update finishers set SkipHooks before executing. NOT decided: what a user hook does; per-record identity at run time.")
}

func checkC13(c *Ctx) {
	p := c.P
	checkC13BatchError(c)
	checkC13AssocDistinct(c)
	checkC13RollbackOnError(c)
	hooks := hookInterfaces(p)
	execs, regs := executorSet(p)

	// ---- C13.tables ----
	rt := c.Rule("C13.tables", "TABLE-AGREE(hook names across schema constants, detection list, method switch, Schema flags, callbacks interfaces, invocations)", 6)
	sets := map[string]map[string]bool{}
	add := func(table, name string) {
		if sets[table] == nil {
			sets[table] = map[string]bool{}
		}
		sets[table][name] = true
	}
	cbType := p.Named(pkgSchema, "callbackType")
	constByObj := map[types.Object]string{}
	sc := p.Pkg(pkgSchema).Types.Scope()
	for _, n := range sc.Names() {
		if k, ok := sc.Lookup(n).(*types.Const); ok && types.Identical(k.Type(), cbType) {
			v := constant.StringVal(k.Val())
			add("constants", v)
			constByObj[k] = v
		}
	}
	parse := p.FuncDecl(pkgSchema, "ParseWithSpecialTableName")
	c.Touch(parse)
	{
		info := parse.Pkg.TypesInfo
		ast.Inspect(parse.Body, func(n ast.Node) bool {
			cl, ok := n.(*ast.CompositeLit)
			if !ok {
				return true
			}
			tv, ok := info.Types[cl]
			if !ok {
				return true
			}
			sl, ok := tv.Type.Underlying().(*types.Slice)
			if !ok || !types.Identical(sl.Elem(), cbType) {
				return true
			}
			for _, el := range cl.Elts {
				if v, ok := constString(info, el); ok {
					add("detection list", v)
				}
			}
			return true
		})
	}
	cbm := p.FuncDecl(pkgSchema, "callBackToMethodValue")
	c.Touch(cbm)
	{
		info := cbm.Pkg.TypesInfo
		ast.Inspect(cbm.Body, func(n ast.Node) bool {
			switch n := n.(type) {
			case *ast.CaseClause:
				for _, e := range n.List {
					if v, ok := constString(info, e); ok {
						add("method switch labels", v)
					}
				}
				// the MethodByName argument of this arm must be the same name
				for _, s := range n.Body {
					ast.Inspect(s, func(x ast.Node) bool {
						if ce, ok := x.(*ast.CallExpr); ok {
							if fn, _ := typeutil.Callee(info, ce).(*types.Func); fn != nil && fn.Name() == "MethodByName" && len(ce.Args) == 1 {
								if v, ok := constString(info, ce.Args[0]); ok {
									add("MethodByName arguments", v)
									if len(n.List) == 1 {
										if lv, _ := constString(info, n.List[0]); lv != v {
											rt.Bad(cbm.Name(), "arm "+lv, ce.Pos(), "the switch arm for "+lv+" looks up method "+v+": a model's "+lv+" hook is detected by the presence of another method")
										}
									}
								}
							}
						}
						return true
					})
				}
			}
			return true
		})
	}
	schemaT := p.Named(pkgSchema, "Schema")
	{
		st := schemaT.Underlying().(*types.Struct)
		for i := 0; i < st.NumFields(); i++ {
			f := st.Field(i)
			if b, ok := f.Type().Underlying().(*types.Basic); ok && b.Kind() == types.Bool && f.Exported() {
				add("Schema bool fields", f.Name())
			}
		}
	}
	for name := range hooks {
		add("callbacks interfaces", name)
	}
	// invocations in executors
	hookSet := map[*types.Func]string{}
	for n, m := range hooks {
		hookSet[m] = n
	}
	type invocation struct {
		f    *FuncSrc
		reg  *Registration
		call *ast.CallExpr
		name string
	}
	var invs []invocation
	for _, f := range p.FuncsOf(pkgCallbacks, pkgGorm) {
		for _, call := range callsIn(f) {
			if fn, _ := typeutil.Callee(f.Pkg.TypesInfo, call).(*types.Func); fn != nil && hookSet[fn] != "" {
				add("invocations", hookSet[fn])
				invs = append(invs, invocation{f, execs[f], call, hookSet[fn]})
			}
		}
	}
	ref := sets["constants"]
	tables := []string{"detection list", "method switch labels", "MethodByName arguments", "Schema bool fields", "callbacks interfaces", "invocations"}
	for _, t := range tables {
		var missing, extra []string
		for n := range ref {
			if !sets[t][n] {
				missing = append(missing, n)
			}
		}
		if t != "Schema bool fields" {
			for n := range sets[t] {
				if !ref[n] {
					extra = append(extra, n)
				}
			}
		}
		sort.Strings(missing)
		sort.Strings(extra)
		rt.Check(len(missing) == 0 && len(extra) == 0, "schema/callbacks", "table: "+t, parse.Body.Pos(), itoa(len(sets[t]))+" names agree with the callbackType constants", "hook table '"+t+"' disagrees with the callbackType constants: missing "+strings.Join(missing, ",")+" extra "+strings.Join(extra, ",")+" - the hook is never detected, panics in FieldByName, or is never invoked")
	}
	rt.Check(len(ref) >= 9, "schema", "constants", parse.Body.Pos(), itoa(len(ref))+" hook names", "fewer than 9 hook names")

	// ---- C13.sites ----
	rs := c.Rule("C13.sites", "hook invocations: right pipeline and side, under the Schema flag, callMethod guarded by !SkipHooks && Error == nil, error reaches AddError", 11)
	callMethod := p.FuncDecl(pkgCallbacks, "callMethod")
	// position of the statement executor (the one with driver sites) per pipeline
	mainIdx := map[string]int{}
	for _, s := range p.DriverSites() {
		if reg := execs[s.F]; reg != nil && s.Kind == DrvStmt {
			mainIdx[reg.Pipeline] = reg.Index
		}
	}
	wantPipes := func(name string) []string {
		switch {
		case strings.HasSuffix(name, "Create"):
			return []string{"create"}
		case strings.HasSuffix(name, "Update"):
			return []string{"update"}
		case strings.HasSuffix(name, "Delete"):
			return []string{"delete"}
		case strings.HasSuffix(name, "Find"):
			return []string{"query"}
		case strings.HasSuffix(name, "Save"):
			return []string{"create", "update"}
		}
		return nil
	}
	seenPipe := map[string]map[string]bool{}
	for _, iv := range invs {
		c.Touch(iv.f)
		desc := "hook " + iv.name
		if iv.reg == nil || iv.f.Lit == nil {
			rs.Bad(iv.f.Name(), desc, iv.call.Pos(), "hook "+iv.name+" is invoked outside a closure of a registered executor: it does not run through the per-element dispatch of callMethod")
			continue
		}
		desc += "@" + iv.reg.Pipeline + "/" + iv.reg.Name
		var problems []string
		// right pipeline and side
		okPipe := false
		for _, w := range wantPipes(iv.name) {
			if w == iv.reg.Pipeline {
				okPipe = true
			}
		}
		if !okPipe {
			problems = append(problems, "runs in the "+iv.reg.Pipeline+" pipeline")
		}
		if seenPipe[iv.name] == nil {
			seenPipe[iv.name] = map[string]bool{}
		}
		seenPipe[iv.name][iv.reg.Pipeline] = true
		mi, hasMain := mainIdx[iv.reg.Pipeline]
		if hasMain {
			if strings.HasPrefix(iv.name, "Before") && !(iv.reg.Index < mi) {
				problems = append(problems, "Before-hook registered at or after the statement executor")
			}
			if strings.HasPrefix(iv.name, "After") && !(iv.reg.Index > mi) {
				problems = append(problems, "After-hook registered at or before the statement executor")
			}
		}
		// closure must be the argument of a callMethod call in the executor
		parent := iv.f.Parent
		var cm *ast.CallExpr
		if parent != nil {
			for _, call := range callsIn(parent) {
				if fn, _ := typeutil.Callee(parent.Pkg.TypesInfo, call).(*types.Func); fn == callMethod.Obj {
					for _, a := range call.Args {
						if unparen(a) == ast.Expr(iv.f.Lit) {
							cm = call
						}
					}
				}
			}
		}
		db := dbParamName(p, iv.reg.Fn)
		if cm == nil {
			problems = append(problems, "closure is not passed to callMethod")
		} else {
			facts, live := p.Guards(parent, nil).At(cm.Pos())
			if !live || !facts.Has(fFalse(db+".Statement.SkipHooks")) {
				problems = append(problems, "callMethod not guarded by !"+db+".Statement.SkipHooks")
			}
			if !live || !facts.Has(fNil(db+".Error")) {
				problems = append(problems, "callMethod not guarded by "+db+".Error == nil")
			}
			// Schema flag: in the closure or at the callMethod site
			inner, _ := p.Guards(iv.f, nil).At(iv.call.Pos())
			flag := fTrue(db + ".Statement.Schema." + iv.name)
			if !(inner.Has(flag) || facts.Has(flag)) {
				problems = append(problems, "not under the "+db+".Statement.Schema."+iv.name+" flag")
			}
		}
		// error reaches AddError: the call is the argument of AddError
		okErr, wrongHandle := false, false
		for _, call := range callsIn(iv.f) {
			if fn, _ := typeutil.Callee(iv.f.Pkg.TypesInfo, call).(*types.Func); fn != nil && fn.Name() == "AddError" && len(call.Args) == 1 && (unparen(call.Args[0]) == ast.Expr(iv.call) || isSingleDefOf(iv.f, call.Args[0], iv.call)) {
				okErr = true
				// recorded on the operation's handle: the receiver is not a parameter of the hook closure
				// (its *gorm.DB parameter is the throw-away session handed to the hook)
				if sel, ok := call.Fun.(*ast.SelectorExpr); ok {
					if root := rootIdentOf(sel.X); root != nil && iv.f.Type != nil && iv.f.Type.Params != nil {
						obj := iv.f.Pkg.TypesInfo.Uses[root]
						for _, fl := range iv.f.Type.Params.List {
							for _, nm := range fl.Names {
								if iv.f.Pkg.TypesInfo.Defs[nm] == obj && obj != nil {
									wrongHandle = true
								}
							}
						}
					}
				}
			}
		}
		if !okErr {
			problems = append(problems, "error result does not go to AddError")
		}
		if wrongHandle {
			problems = append(problems, "the hook's error is recorded on the hook session, not on the operation's handle: the operation reports success and its transaction commits")
		}
		rs.Check(len(problems) == 0, iv.f.Name(), desc, iv.call.Pos(), "dispatched through callMethod, guarded, error recorded", strings.Join(problems, "; "))
	}
	for name := range hooks {
		for _, w := range wantPipes(name) {
			rs.Check(seenPipe[name][w], "callbacks", "hook "+name+" invoked in pipeline "+w, callMethod.Body.Pos(), "invoked", "hook "+name+" is never invoked in the "+w+" pipeline")
		}
	}

	// ---- C13.order ----
	ro := c.Rule("C13.order", "ORDER inside a phase closure (BeforeSave first, AfterSave last) and across the pipeline", 8)
	byFn := map[*FuncSrc][]invocation{}
	for _, iv := range invs {
		byFn[iv.f] = append(byFn[iv.f], iv)
	}
	for f, list := range byFn {
		if len(list) < 2 {
			continue
		}
		gs := p.Guards(f, nil)
		for _, a := range list {
			for _, b := range list {
				var first, second invocation
				switch {
				case a.name == "BeforeSave" && (b.name == "BeforeCreate" || b.name == "BeforeUpdate"):
					first, second = a, b
				case (a.name == "AfterCreate" || a.name == "AfterUpdate") && b.name == "AfterSave":
					first, second = a, b
				default:
					continue
				}
				// no path executes `second` before `first`
				secondPos := second.call.Pos()
				reach := gs.Reaches(secondPos, func(n ast.Node) bool { return containsNode(n, first.call) })
				ro.Check(!reach && first.call.Pos() < second.call.Pos(), f.Name(), first.name+" before "+second.name, second.call.Pos(), "no path runs "+second.name+" first", second.name+" can run before "+first.name+" in the same phase: hooks fire out of the documented order")
			}
		}
	}
	// pipeline order
	sba, saa, dba := p.FuncDecl(pkgCallbacks, "SaveBeforeAssociations"), p.FuncDecl(pkgCallbacks, "SaveAfterAssociations"), p.FuncDecl(pkgCallbacks, "DeleteBeforeAssociations")
	phaseOf := func(r *Registration) int {
		// 0 begin, 1 other-before, 2 before-hooks, 3 before-assoc, 4 statement, 5 after-assoc, 6 after-hooks, 7 commit
		hasHook := ""
		for _, iv := range invs {
			if iv.reg == r {
				hasHook = iv.name
			}
		}
		switch {
		case strings.HasPrefix(hasHook, "Before"):
			return 2
		case strings.HasPrefix(hasHook, "After"):
			return 6
		}
		if mi, ok := mainIdx[r.Pipeline]; ok && r.Index == mi {
			return 4
		}
		// association executors: saved belongs-to records and deleted associations come after the before-hooks (a
		// hook may still veto or change the record), saved has-one/has-many/many2many before the after-hooks
		switch {
		case r.Factory != nil && r.Factory == sba, r.Fn != nil && r.Fn == dba:
			return 3
		case r.Factory != nil && r.Factory == saa:
			return 5
		}
		return -1
	}
	byPipe := map[string][]*Registration{}
	for _, r := range regs {
		byPipe[r.Pipeline] = append(byPipe[r.Pipeline], r)
	}
	for _, pl := range []string{"create", "update", "delete"} {
		last := -1
		okOrder := true
		var seq []string
		for _, r := range byPipe[pl] {
			ph := phaseOf(r)
			seq = append(seq, r.Name)
			if ph < 0 {
				continue
			}
			if ph < last {
				okOrder = false
			}
			last = ph
		}
		// association savers around the statement
		if pl != "delete" {
			mi := mainIdx[pl]
			var before, after bool
			for _, r := range byPipe[pl] {
				if r.Factory != nil && strings.Contains(r.Factory.Name(), "SaveBeforeAssociations") && r.Index < mi {
					before = true
				}
				if r.Factory != nil && strings.Contains(r.Factory.Name(), "SaveAfterAssociations") && r.Index > mi {
					after = true
				}
			}
			ro.Check(before && after, "callbacks.RegisterDefaultCallbacks", pl+": association saves around the statement", regs[0].Call.Pos(), "belongs-to before, has-one/has-many/many2many after the statement", "association saves are not registered around the "+pl+" statement")
		}
		ro.Check(okOrder, "callbacks.RegisterDefaultCallbacks", pl+": before-hooks < statement < after-hooks", regs[0].Call.Pos(), strings.Join(seq, " < "), "pipeline "+pl+" does not register before-hooks < before-associations < statement < after-associations < after-hooks: "+strings.Join(seq, " < ")+" (an association phase that runs before the owner's before-hooks has already saved records when such a hook fails, and misses what the hook sets)")
	}

	// update pipeline: the executor that points Statement.ReflectValue at the model precedes every hook executor
	{
		stmtT0 := p.Named(pkgGorm, "Statement")
		rvF := p.Field(stmtT0, "ReflectValue")
		setupIdx, firstHook := -1, -1
		for _, r := range byPipe["update"] {
			for _, st := range p.FieldStores(rvF) {
				if rootSSA(st.Fn).Object() != nil && r.Fn.Obj != nil && rootSSA(st.Fn).Object() == r.Fn.Obj && setupIdx < 0 {
					setupIdx = r.Index
				}
			}
			if phaseOf(r) == 2 && firstHook < 0 {
				firstHook = r.Index
			}
		}
		ro.Check(setupIdx >= 0 && firstHook >= 0 && setupIdx < firstHook, "callbacks.RegisterDefaultCallbacks", "update: model reflect value set up before the before-hooks", regs[0].Call.Pos(), "hooks see the model being updated", "the update pipeline runs BeforeSave/BeforeUpdate before Statement.ReflectValue is pointed at the model: hooks are dispatched on the update values (e.g. a map) instead of the records")
	}

	// ---- C13.dispatch ----
	rd := c.Rule("C13.dispatch", "callMethod: hooks get a session of the operation's handle; whole value first; exactly one call per element with CurDestIndex bookkeeping", 5)
	c.Touch(callMethod)
	{
		info := callMethod.Pkg.TypesInfo
		db := paramName(callMethod, 0)
		fc := paramName(callMethod, 1)
		// handle given to hooks
		var fcCalls []*ast.CallExpr
		for _, call := range callsIn(callMethod) {
			if id, ok := unparen(call.Fun).(*ast.Ident); ok && id.Name == fc {
				fcCalls = append(fcCalls, call)
			}
		}
		sessM := p.Method(p.Named(pkgGorm, "DB"), "Session")
		okHandle := len(fcCalls) > 0
		for _, call := range fcCalls {
			if len(call.Args) != 2 {
				okHandle = false
				continue
			}
			def := resolveLocal(callMethod, call.Args[1])
			ce, ok := unparen(def).(*ast.CallExpr)
			if !ok {
				okHandle = false
				continue
			}
			fn, _ := typeutil.Callee(info, ce).(*types.Func)
			sel, _ := ce.Fun.(*ast.SelectorExpr)
			if fn != sessM || sel == nil || canon(info, sel.X) != db {
				okHandle = false
			}
		}
		rd.Check(okHandle, callMethod.Name(), "hook handle derives from the operation's handle", callMethod.Body.Pos(), fc+"(value, "+db+".Session(...))", "hooks receive a handle that is not a session of the operation's own *DB: their statements leave the operation's transaction")
		// slice arm: loop with exactly one fc per iteration
		stmtT := p.Named(pkgGorm, "Statement")
		curF := p.Field(stmtT, "CurDestIndex")
		var loop *ast.ForStmt
		ast.Inspect(callMethod.Body, func(n ast.Node) bool {
			if fs, ok := n.(*ast.ForStmt); ok {
				for _, call := range fcCalls {
					if fs.Body.Pos() <= call.Pos() && call.End() <= fs.Body.End() {
						loop = fs
					}
				}
			}
			return true
		})
		if loop == nil {
			rd.Bad(callMethod.Name(), "element loop", callMethod.Body.Pos(), "callMethod has no per-element loop calling the hook")
		} else {
			paths, ok := p.EnumLoopIterPaths(callMethod, loop, 1000)
			bad := 0
			incMissing := 0
			for _, nodes := range paths {
				n := 0
				inc := false
				returns := false
				for _, nd := range nodes {
					for _, call := range fcCalls {
						if containsNode(nd, call) {
							n++
						}
					}
					if ids, ok := nd.(*ast.IncDecStmt); ok && ids.Tok == token.INC && fieldSel(info, ids.X, curF) {
						inc = true
					}
					if _, ok := nd.(*ast.ReturnStmt); ok {
						returns = true
					}
				}
				if returns {
					if n != 0 {
						bad++
					}
					continue // abort path (invalid value): no hook, no next element
				}
				if n != 1 {
					bad++
				}
				if !inc {
					incMissing++
				}
			}
			rd.Check(ok && bad == 0, callMethod.Name(), "ONCE(hook per element)", loop.Pos(), "exactly one hook call on each of "+itoa(len(paths))+" iteration paths", "an iteration of the per-element loop calls the hook zero or several times")
			rd.Check(ok && incMissing == 0, callMethod.Name(), "CurDestIndex incremented each iteration", loop.Pos(), "index follows the element", "an iteration of the per-element loop does not advance CurDestIndex: SetColumn in a hook writes to the wrong element")
			// reset before the loop
			facts, _ := p.Guards(callMethod, &GuardConfig{Name: "c13-reset", Events: func(info *types.Info, n ast.Node) []string {
				if as, ok := n.(*ast.AssignStmt); ok && len(as.Lhs) == 1 && fieldSel(info, as.Lhs[0], curF) && isZeroLit(as.Rhs[0]) {
					return []string{"cur-reset"}
				}
				return nil
			}}).At(loopAnchor(loop))
			rd.Check(facts.Has(fEvent("cur-reset")), callMethod.Name(), "CurDestIndex reset before the loop", loop.Pos(), "starts at 0", "CurDestIndex is not reset before the per-element loop")
			// loop entered only when the whole-value attempt was not called
			lf, _ := p.Guards(callMethod, nil).At(loopAnchor(loop))
			rd.Check(localFact(callMethod, lf, false, loopAnchor(loop), defIsCallOfVar(fc)), callMethod.Name(), "per-element dispatch only when the whole value has no hook", loop.Pos(), "!called", "the per-element loop also runs when the whole value already handled the hook: hooks fire twice")
		}
	}

	// hook closures must report that they invoked a hook: callMethod dispatches per element only when
	// the whole-value attempt returned false, so an invocation that is not reported runs the hook twice
	closures := map[*FuncSrc]bool{}
	for _, iv := range invs {
		if iv.f.Lit != nil {
			closures[iv.f] = true
		}
	}
	for f := range closures {
		info := f.Pkg.TypesInfo
		var resObj types.Object
		if f.Type.Results != nil && len(f.Type.Results.List) == 1 && len(f.Type.Results.List[0].Names) == 1 {
			resObj = info.Defs[f.Type.Results.List[0].Names[0]]
		}
		paths, ok := p.EnumPaths(f, nil, 5000)
		bad := 0
		var where token.Pos = f.Body.Pos()
		for _, pr := range paths {
			invoked, reported := false, false
			for _, n := range pr.Nodes {
				ast.Inspect(n, func(x ast.Node) bool {
					switch x := x.(type) {
					case *ast.CallExpr:
						if fn, _ := typeutil.Callee(info, x).(*types.Func); fn != nil && hookSet[fn] != "" {
							invoked = true
						}
					case *ast.AssignStmt:
						if len(x.Lhs) == 1 && len(x.Rhs) == 1 && x.Tok == token.ASSIGN {
							if id, ok := x.Lhs[0].(*ast.Ident); ok && resObj != nil && info.Uses[id] == resObj {
								if b, isC := constBool(info, x.Rhs[0]); isC && b {
									reported = true
								}
							}
						}
					case *ast.ReturnStmt:
						if len(x.Results) == 1 {
							if b, isC := constBool(info, x.Results[0]); isC && b {
								reported = true
							}
						}
					}
					return true
				})
			}
			if invoked && !reported {
				bad++
				where = pr.Exit
			}
		}
		rd.Check(ok && bad == 0, f.Name(), "closure reports the hook invocation", where, "returns true on every path that invoked a hook", "a path through the hook closure invokes a hook but returns false: callMethod then dispatches per element as well and the hook fires twice for the same record")
	}

	// Save runs the update pipeline (with hooks) and falls back to an insert when no row matched: the
	// fallback must not run a second round of hooks on the same record
	{
		save := p.MethodDecl(pkgGorm, "DB", "Save")
		c.Touch(save)
		info := save.Pkg.TypesInfo
		dbT0 := p.Named(pkgGorm, "DB")
		createM := p.Method(dbT0, "Create")
		sessT0 := p.Named(pkgGorm, "Session")
		accUpdate := p.Method(p.Named(pkgGorm, "callbacks"), "Update")
		ranUpdate := false
		for _, call := range callsIn(save) {
			if fn, _ := typeutil.Callee(info, call).(*types.Func); fn == accUpdate {
				ranUpdate = true
			}
		}
		for _, call := range callsIn(save) {
			if fn, _ := typeutil.Callee(info, call).(*types.Func); fn != createM || !ranUpdate {
				continue
			}
			skips := false
			for _, nd := range chainNodes(save, call) {
				for _, lit := range litsOfType(info, nd, sessT0, false) {
					if v := compositeField(lit, "SkipHooks"); v != nil {
						if b, ok := constBool(info, v); ok && b {
							skips = true
						}
					}
				}
			}
			rd.Check(skips, save.Name(), "insert fallback after the update pipeline skips hooks", call.Pos(), "Session{SkipHooks: true}", "Save's insert fallback runs after the update pipeline has already run the hooks and does not skip them: BeforeSave/AfterSave fire twice for the same record (and a non-idempotent BeforeSave is applied twice)")
		}
	}

	// nested association saves run the hooks of a record once per operation: the per-operation visit map
	// records every value it is asked about, also the first one (when the map is created)
	{
		cas := p.FuncDecl(pkgCallbacks, "checkAssociationsSaved")
		c.Touch(cas)
		cinfo := cas.Pkg.TypesInfo
		setM := p.Method(p.Named(pkgGorm, "DB"), "Set")
		los := p.FuncDecl(pkgCallbacks, "loadOrStoreVisitMap").Obj
		gsc := p.Guards(cas, nil)
		nSet := 0
		for _, call := range callsIn(cas) {
			if fn, _ := typeutil.Callee(cinfo, call).(*types.Func); fn != setM {
				continue
			}
			nSet++
			facts, live := gsc.At(call.Pos())
			rd.Check(live && facts.Has(fCalled(los.FullName())), cas.Name(), "new visit map records the values it was created for", call.Pos(), "loadOrStoreVisitMap runs before the map is published with Set", "the per-operation visit map is stored without recording the records it was created for: a record of the first association slice that is referenced again deeper in the graph is saved a second time and its Before/After hooks fire twice")
		}
		usesLOS := false
		for _, call := range callsIn(cas) {
			if fn, _ := typeutil.Callee(cinfo, call).(*types.Func); fn == los {
				usesLOS = true
			}
		}
		rd.Check(nSet >= 1 && usesLOS, cas.Name(), "visit map protocol", cas.Body.Pos(), "look-up in the existing map, or create + record + publish", "checkAssociationsSaved no longer consults / publishes the per-operation visit map")
	}

	// a hook failing in a later batch of a batched create rolls back the earlier batches too
	checkBatchBracket(c, rd)

	// ---- C13.skip ----
	rk := c.Rule("C13.skip", "column-update finishers set SkipHooks before executing", 2)
	stmtT := p.Named(pkgGorm, "Statement")
	skipF := p.Field(stmtT, "SkipHooks")
	procExec := p.Method(p.Named(pkgGorm, "processor"), "Execute")
	for _, name := range []string{"UpdateColumn", "UpdateColumns"} {
		f := p.MethodDecl(pkgGorm, "DB", name)
		c.Touch(f)
		info := f.Pkg.TypesInfo
		conf := &GuardConfig{Name: "c13-skip", Events: func(info *types.Info, n ast.Node) []string {
			if as, ok := n.(*ast.AssignStmt); ok && len(as.Lhs) == 1 && fieldSel(info, as.Lhs[0], skipF) {
				if b, ok := constBool(info, as.Rhs[0]); ok && b {
					return []string{"skip-set"}
				}
			}
			return nil
		}}
		found := false
		for _, call := range callsIn(f) {
			if fn, _ := typeutil.Callee(info, call).(*types.Func); fn == procExec {
				facts, live := p.Guards(f, conf).At(call.Pos())
				found = live && facts.Has(fEvent("skip-set"))
			}
		}
		rk.Check(found, f.Name(), "SkipHooks = true before Execute", f.Body.Pos(), "column updates run no hooks", name+" executes the update pipeline without setting SkipHooks: hooks (and update-time tracking) run for a column update")
	}
}

// loopAnchor returns a position inside the loop header that belongs to a CFG node.
func loopAnchor(loop *ast.ForStmt) token.Pos {
	if loop.Init != nil {
		return loop.Init.Pos()
	}
	if loop.Cond != nil {
		return loop.Cond.Pos()
	}
	if len(loop.Body.List) > 0 {
		return loop.Body.List[0].Pos()
	}
	return loop.Pos()
}

// isSingleDefOf: e is a local with exactly one definition, and that definition is the call (so nothing can
// overwrite the value between the call and the use).
func isSingleDefOf(f *FuncSrc, e ast.Expr, call *ast.CallExpr) bool {
	id, ok := unparen(e).(*ast.Ident)
	if !ok {
		return false
	}
	d := resolveLocal(f, id)
	return d != nil && unparen(d) == ast.Expr(call)
}
