package main

// Behaviour-preserving edits: every claimed check must stay silent on them
// (exit 0).  Run: gormverif neutral

func init() {
	addMutants(
		Mutant{Name: "n01-rename-locals", Property: "*", Rule: "NEUTRAL", Edits: []Edit{
			{"callbacks/callmethod.go", "if called := fc(db.Statement.ReflectValue.Interface(), tx); !called {", "if handled := fc(db.Statement.ReflectValue.Interface(), tx); !handled {"},
			{"callbacks/transaction.go", "if _, ok := db.InstanceGet(\"gorm:started_transaction\"); ok {", "if _, started := db.InstanceGet(\"gorm:started_transaction\"); started {"},
			{"finisher_api.go", "\t\tif _, ok := tx.Statement.Clauses[\"ON CONFLICT\"]; !ok {", "\t\tif _, hasConflict := tx.Statement.Clauses[\"ON CONFLICT\"]; !hasConflict {"},
			{"callbacks/update.go", "\t\t\t\tif value, isZero := field.ValueOf(stmt.Context, stmt.ReflectValue); !isZero {\n\t\t\t\t\tstmt.AddClause(", "\t\t\t\tif value, blank := field.ValueOf(stmt.Context, stmt.ReflectValue); !blank {\n\t\t\t\t\tstmt.AddClause("},
		}},
		Mutant{Name: "n02-rawexec-early-return", Property: "*", Rule: "NEUTRAL", Edits: []Edit{{"callbacks/raw.go",
			"\tif db.Error == nil && !db.DryRun {\n\t\tresult, err := db.Statement.ConnPool.ExecContext(db.Statement.Context, db.Statement.SQL.String(), db.Statement.Vars...)\n\t\tif err != nil {\n\t\t\tdb.AddError(err)\n\t\t\treturn\n\t\t}\n\n\t\tdb.RowsAffected, _ = result.RowsAffected()\n\t}",
			"\tif db.Error != nil || db.DryRun {\n\t\treturn\n\t}\n\tresult, err := db.Statement.ConnPool.ExecContext(db.Statement.Context, db.Statement.SQL.String(), db.Statement.Vars...)\n\tif err != nil {\n\t\tdb.AddError(err)\n\t\treturn\n\t}\n\n\tdb.RowsAffected, _ = result.RowsAffected()"}}},
		Mutant{Name: "n03-query-locals-for-sql-and-context", Property: "*", Rule: "NEUTRAL", Edits: []Edit{{"callbacks/query.go",
			"\t\t\trows, err := db.Statement.ConnPool.QueryContext(db.Statement.Context, db.Statement.SQL.String(), db.Statement.Vars...)\n\t\t\tif err != nil {\n\t\t\t\tdb.AddError(err)\n\t\t\t\treturn\n\t\t\t}\n\t\t\tdefer func() {",
			"\t\t\tctx, query := db.Statement.Context, db.Statement.SQL.String()\n\t\t\trows, err := db.Statement.ConnPool.QueryContext(ctx, query, db.Statement.Vars...)\n\t\t\tif err != nil {\n\t\t\t\tdb.AddError(err)\n\t\t\t\treturn\n\t\t\t}\n\t\t\tdefer func() {"}}},
		Mutant{Name: "n04-update-conjuncts-swapped", Property: "*", Rule: "NEUTRAL", Edits: []Edit{{"callbacks/update.go",
			"\t\tcheckMissingWhereConditions(db)\n\n\t\tif !db.DryRun && db.Error == nil {", "\t\tcheckMissingWhereConditions(db)\n\n\t\tif db.Error == nil && !db.DryRun {"}}},
		Mutant{Name: "n05-clone-assigns-after-literal", Property: "*", Rule: "NEUTRAL", Edits: []Edit{
			{"statement.go", "\t\tOmits:                stmt.Omits,\n", ""},
			{"statement.go", "\tif stmt.SQL.Len() > 0 {\n\t\tnewStmt.SQL.WriteString(stmt.SQL.String())", "\tnewStmt.Omits = stmt.Omits\n\n\tif stmt.SQL.Len() > 0 {\n\t\tnewStmt.SQL.WriteString(stmt.SQL.String())"}}},
		Mutant{Name: "n06-guard-with-early-returns", Property: "*", Rule: "NEUTRAL", Edits: []Edit{{"callbacks/helper.go",
			"\tif !db.AllowGlobalUpdate && db.Error == nil {\n\t\twhere, withCondition := db.Statement.Clauses[\"WHERE\"]",
			"\tif db.AllowGlobalUpdate {\n\t\treturn\n\t}\n\tif db.Error == nil {\n\t\twhere, withCondition := db.Statement.Clauses[\"WHERE\"]"}}},
		Mutant{Name: "n07-where-merge-with-append-on-fresh", Property: "*", Rule: "NEUTRAL", Edits: []Edit{{"clause/where.go",
			"\t\texprs := make([]Expression, len(w.Exprs)+len(where.Exprs))\n\t\tcopy(exprs, w.Exprs)\n\t\tcopy(exprs[len(w.Exprs):], where.Exprs)\n\t\twhere.Exprs = exprs",
			"\t\texprs := make([]Expression, 0, len(w.Exprs)+len(where.Exprs))\n\t\texprs = append(exprs, w.Exprs...)\n\t\texprs = append(exprs, where.Exprs...)\n\t\twhere.Exprs = exprs"}}},
		Mutant{Name: "n08-session-blocks-reordered", Property: "*", Rule: "NEUTRAL", Edits: []Edit{
			{"gorm.go", "\tif config.DryRun {\n\t\ttx.Config.DryRun = true\n\t}\n\n\tif config.QueryFields {\n\t\ttx.Config.QueryFields = true\n\t}\n", "\tif config.QueryFields {\n\t\ttx.Config.QueryFields = true\n\t}\n\n\tif config.DryRun {\n\t\ttx.Config.DryRun = true\n\t}\n"}}},
		Mutant{Name: "n09-register-without-local-processor-var", Property: "*", Rule: "NEUTRAL", Edits: []Edit{
			{"callbacks/callbacks.go", "\trawCallback := db.Callback().Raw()\n\trawCallback.Register(\"gorm:raw\", RawExec)\n\trawCallback.Clauses = config.QueryClauses", "\tdb.Callback().Raw().Register(\"gorm:raw\", RawExec)\n\tdb.Callback().Raw().Clauses = config.QueryClauses"}}},
		Mutant{Name: "n10-transaction-flag-renamed", Property: "*", Rule: "NEUTRAL", Edits: []Edit{
			{"finisher_api.go", "\tpanicked := true\n", "\tunfinished := true\n"},
			{"finisher_api.go", "\t\t\t\tif panicked || err != nil {\n\t\t\t\t\tdb.RollbackTo(", "\t\t\t\tif unfinished || err != nil {\n\t\t\t\t\tdb.RollbackTo("},
			{"finisher_api.go", "\t\t\tif panicked || err != nil {\n\t\t\t\ttx.Rollback()", "\t\t\tif unfinished || err != nil {\n\t\t\t\ttx.Rollback()"},
			{"finisher_api.go", "\t\tif err = fc(tx); err == nil {\n\t\t\tpanicked = false", "\t\tif err = fc(tx); err == nil {\n\t\t\tunfinished = false"},
			{"finisher_api.go", "\tpanicked = false\n\treturn\n}", "\tunfinished = false\n\treturn\n}"}}},
		Mutant{Name: "n11-prepare-hit-arms-share-helper", Property: "*", Rule: "NEUTRAL", Edits: []Edit{
			{"prepare_stmt.go", "\tdb.Mux.RLock()\n\tif stmt, ok := db.Stmts[query]; ok && (!stmt.Transaction || isTransaction) {\n\t\tdb.Mux.RUnlock()\n\t\t// wait for other goroutines prepared\n\t\t<-stmt.prepared\n\t\tif stmt.prepareErr != nil {\n\t\t\treturn Stmt{}, stmt.prepareErr\n\t\t}\n\n\t\treturn *stmt, nil\n\t}\n\tdb.Mux.RUnlock()\n",
				"\tdb.Mux.RLock()\n\thit, ok := db.Stmts[query]\n\tdb.Mux.RUnlock()\n\tif ok && (!hit.Transaction || isTransaction) {\n\t\t// wait for other goroutines prepared\n\t\t<-hit.prepared\n\t\tif hit.prepareErr != nil {\n\t\t\treturn Stmt{}, hit.prepareErr\n\t\t}\n\n\t\treturn *hit, nil\n\t}\n"}}},
		Mutant{Name: "n12-limit-build-local", Property: "*", Rule: "NEUTRAL", Edits: []Edit{
			{"clause/limit.go", "\tif limit.Limit != nil && *limit.Limit >= 0 {\n\t\tbuilder.WriteString(\"LIMIT \")\n\t\tbuilder.AddVar(builder, *limit.Limit)\n\t}", "\tif n := limit.Limit; n != nil && *n >= 0 {\n\t\tbuilder.WriteString(\"LIMIT \")\n\t\tbuilder.AddVar(builder, *n)\n\t}"}}},
	)
}

func init() {
	addMutants(
		Mutant{Name: "n13-single-batch-comparison-flipped", Property: "*", Rule: "NEUTRAL", Edits: []Edit{{"finisher_api.go",
			"if tx.SkipDefaultTransaction || reflectLen <= batchSize {", "if tx.SkipDefaultTransaction || batchSize >= reflectLen {"}}},
		Mutant{Name: "n14-softdelete-unscoped-hoisted", Property: "*", Rule: "NEUTRAL", Edits: []Edit{{"soft_delete.go",
			"\tif _, ok := stmt.Clauses[\"soft_delete_enabled\"]; !ok && !stmt.Statement.Unscoped {", "\tunscoped := stmt.Statement.Unscoped\n\tif _, ok := stmt.Clauses[\"soft_delete_enabled\"]; !ok && !unscoped {"}}},
		Mutant{Name: "n15-query-error-hoisted", Property: "*", Rule: "NEUTRAL", Edits: []Edit{{"callbacks/query.go",
			"func Query(db *gorm.DB) {\n\tif db.Error == nil {\n\t\tBuildQuerySQL(db)\n\n\t\tif !db.DryRun && db.Error == nil {", "func Query(db *gorm.DB) {\n\tif db.Error == nil {\n\t\tBuildQuerySQL(db)\n\n\t\tdryRun, failed := db.DryRun, db.Error\n\t\tif !dryRun && failed == nil {"}}},
		Mutant{Name: "n16-delete-executor-early-return-on-dryrun", Property: "*", Rule: "NEUTRAL", Edits: []Edit{{"callbacks/delete.go",
			"\t\tcheckMissingWhereConditions(db)\n\n\t\tif !db.DryRun && db.Error == nil {\n\t\t\tok, mode := hasReturning(db, supportReturning)\n\t\t\tif !ok {", "\t\tcheckMissingWhereConditions(db)\n\n\t\tif db.DryRun || db.Error != nil {\n\t\t\treturn\n\t\t}\n\t\t{\n\t\t\tok, mode := hasReturning(db, supportReturning)\n\t\t\tif !ok {"}}},
		Mutant{Name: "n17-where-build-copy-via-append", Property: "*", Rule: "NEUTRAL", Edits: []Edit{{"clause/where.go",
			"\t\t\t\texprs := make([]Expression, len(where.Exprs))\n\t\t\t\tcopy(exprs, where.Exprs)\n\t\t\t\texprs[0], exprs[idx] = exprs[idx], exprs[0]", "\t\t\t\texprs := append(make([]Expression, 0, len(where.Exprs)), where.Exprs...)\n\t\t\t\texprs[0], exprs[idx] = exprs[idx], exprs[0]"}}},
		Mutant{Name: "n18-clone-copies-clauses-with-index-loop", Property: "*", Rule: "NEUTRAL", Edits: []Edit{{"statement.go",
			"\tfor k, c := range stmt.Clauses {\n\t\tnewStmt.Clauses[k] = c\n\t}", "\tfor name, cl := range stmt.Clauses {\n\t\tnewStmt.Clauses[name] = cl\n\t}"}}},
	)
}
