package main

// gorm vocabulary resolved from the repository on every run (DESIGN.md section 2).

import (
	"go/ast"
	"go/constant"
	"go/token"
	"go/types"
	"strings"

	"golang.org/x/tools/go/types/typeutil"
)

// ---- executors: what RegisterDefaultCallbacks registers ----

type Registration struct {
	Pipeline    string // create|query|update|delete|row|raw
	Name        string // e.g. gorm:create
	Fn          *FuncSrc
	Factory     *FuncSrc // non-nil when Fn is the closure returned by a factory (Create(config))
	Matched     string   // name of the match predicate variable, "" if none
	BeforeAfter bool
	Call        *ast.CallExpr
	Index       int // position within its pipeline
}

func (p *Program) Registrations() []*Registration {
	f := p.FuncDecl(pkgCallbacks, "RegisterDefaultCallbacks")
	info := f.Pkg.TypesInfo
	procT := p.Named(pkgGorm, "processor")
	cbT := p.Named(pkgGorm, "callback")
	regP := p.Method(procT, "Register")
	regC := p.Method(cbT, "Register")

	// local variable -> pipeline, from  v := db.Callback().<Accessor>()
	pipeOf := map[types.Object]string{}
	accessor := func(e ast.Expr) string {
		c, ok := unparen(e).(*ast.CallExpr)
		if !ok {
			return ""
		}
		fn, _ := typeutil.Callee(info, c).(*types.Func)
		if fn == nil || fn.Pkg() == nil || fn.Pkg().Path() != pkgGorm {
			return ""
		}
		sig := fn.Type().(*types.Signature)
		if sig.Recv() == nil || sig.Results().Len() != 1 {
			return ""
		}
		if pt, ok := sig.Results().At(0).Type().(*types.Pointer); !ok || pt.Elem() != procT {
			return ""
		}
		if !strings.HasSuffix(sig.Recv().Type().String(), "callbacks") {
			return ""
		}
		return strings.ToLower(fn.Name())
	}
	ast.Inspect(f.Body, func(n ast.Node) bool {
		as, ok := n.(*ast.AssignStmt)
		if !ok || len(as.Lhs) != len(as.Rhs) {
			return true
		}
		for i, l := range as.Lhs {
			if id, ok := l.(*ast.Ident); ok {
				if pl := accessor(as.Rhs[i]); pl != "" {
					if o := info.Defs[id]; o != nil {
						pipeOf[o] = pl
					} else if o := info.Uses[id]; o != nil {
						pipeOf[o] = pl
					}
				}
			}
		}
		return true
	})

	var regs []*Registration
	count := map[string]int{}
	for _, call := range callsIn(f) {
		fn, _ := typeutil.Callee(info, call).(*types.Func)
		if fn != regP && fn != regC {
			continue
		}
		r := &Registration{Call: call}
		// receiver chain
		recv := call.Fun.(*ast.SelectorExpr).X
		for {
			recv = unparen(recv)
			if c, ok := recv.(*ast.CallExpr); ok {
				if sel, ok := c.Fun.(*ast.SelectorExpr); ok {
					mfn, _ := typeutil.Callee(info, c).(*types.Func)
					if mfn != nil && (mfn.Name() == "Before" || mfn.Name() == "After") {
						r.BeforeAfter = true
						recv = sel.X
						continue
					}
					if mfn != nil && mfn.Name() == "Match" {
						if len(c.Args) == 1 {
							r.Matched = exprStr(c.Args[0])
						}
						recv = sel.X
						continue
					}
				}
				if pl := accessor(c); pl != "" {
					r.Pipeline = pl
				}
				break
			}
			if id, ok := recv.(*ast.Ident); ok {
				r.Pipeline = pipeOf[info.Uses[id]]
			}
			break
		}
		if r.Pipeline == "" {
			fatalf("anchor: cannot resolve the pipeline of registration at %s", p.Pos(call.Pos()))
		}
		if tv, ok := info.Types[call.Args[0]]; ok && tv.Value != nil && tv.Value.Kind() == constant.String {
			r.Name = constant.StringVal(tv.Value)
		} else {
			fatalf("anchor: registration name is not a constant at %s", p.Pos(call.Pos()))
		}
		r.Fn, r.Factory = p.resolveFuncValue(info, call.Args[1])
		if r.Fn == nil {
			fatalf("anchor: cannot resolve registered function %s at %s", r.Name, p.Pos(call.Pos()))
		}
		r.Index = count[r.Pipeline]
		count[r.Pipeline]++
		regs = append(regs, r)
	}
	if len(regs) == 0 {
		fatalf("anchor: no registrations found in RegisterDefaultCallbacks")
	}
	return regs
}

// resolveFuncValue resolves an expression of function type to source: a named
// function, or the literal returned by a factory call.
func (p *Program) resolveFuncValue(info *types.Info, e ast.Expr) (fn, factory *FuncSrc) {
	e = unparen(e)
	switch e := e.(type) {
	case *ast.Ident:
		if o, ok := info.Uses[e].(*types.Func); ok {
			return p.SrcOpt(o), nil
		}
	case *ast.SelectorExpr:
		if o, ok := info.Uses[e.Sel].(*types.Func); ok {
			return p.SrcOpt(o), nil
		}
	case *ast.FuncLit:
		return p.LitSrc(e), nil
	case *ast.CallExpr:
		if o, ok := typeutil.Callee(info, e).(*types.Func); ok {
			fac := p.SrcOpt(o)
			if fac == nil {
				return nil, nil
			}
			var lit *ast.FuncLit
			n := 0
			ast.Inspect(fac.Body, func(x ast.Node) bool {
				switch x := x.(type) {
				case *ast.FuncLit:
					return false
				case *ast.ReturnStmt:
					n++
					if len(x.Results) == 1 {
						if l, ok := unparen(x.Results[0]).(*ast.FuncLit); ok {
							lit = l
						}
					}
				}
				return true
			})
			if lit != nil && n == 1 {
				return p.LitSrc(lit), fac
			}
		}
	}
	return nil, nil
}

// ---- driver call sites ----

type DriverKind string

const (
	DrvStmt     DriverKind = "stmt"     // Exec/Query/QueryRow(Context)
	DrvPrepare  DriverKind = "prepare"  // Prepare(Context)
	DrvBegin    DriverKind = "begin"    // BeginTx / Begin
	DrvCommit   DriverKind = "commit"   // Commit
	DrvRollback DriverKind = "rollback" // Rollback
	DrvStmtCtx  DriverKind = "stmtctx"  // Tx.StmtContext
	DrvClose    DriverKind = "close"    // Stmt.Close
	DrvConn     DriverKind = "conn"     // (*sql.DB).Conn
)

type DriverSite struct {
	F       *FuncSrc
	Call    *ast.CallExpr
	Callee  *types.Func
	Kind    DriverKind
	CtxLess bool // context-less API (Exec/Query/...)
	Iface   bool // callee is a gorm interface method
}

var driverMethodKinds = map[string]DriverKind{
	"ExecContext": DrvStmt, "QueryContext": DrvStmt, "QueryRowContext": DrvStmt,
	"Exec": DrvStmt, "Query": DrvStmt, "QueryRow": DrvStmt,
	"PrepareContext": DrvPrepare, "Prepare": DrvPrepare,
	"BeginTx": DrvBegin, "Begin": DrvBegin,
	"Commit": DrvCommit, "Rollback": DrvRollback,
	"StmtContext": DrvStmtCtx, "Stmt": DrvStmtCtx,
	"Conn": DrvConn,
}

var ctxLessNames = map[string]bool{"Exec": true, "Query": true, "QueryRow": true, "Prepare": true, "Begin": true, "Stmt": true}

// driverCallee classifies fn as a database/sql or gorm connection-pool method.
func (p *Program) driverCallee(fn *types.Func) (DriverKind, bool, bool) {
	if fn == nil || fn.Pkg() == nil {
		return "", false, false
	}
	sig, _ := fn.Type().(*types.Signature)
	if sig == nil || sig.Recv() == nil {
		return "", false, false
	}
	kind, ok := driverMethodKinds[fn.Name()]
	rt := sig.Recv().Type()
	if pt, isPtr := rt.(*types.Pointer); isPtr {
		rt = pt.Elem()
	}
	nt, _ := rt.(*types.Named)
	switch fn.Pkg().Path() {
	case pkgGorm:
		if nt == nil {
			return "", false, false
		}
		if _, isIface := nt.Underlying().(*types.Interface); !isIface {
			return "", false, false
		}
		switch nt.Obj().Name() {
		case "ConnPool", "TxBeginner", "ConnPoolBeginner", "TxCommitter", "Tx":
			if ok {
				return kind, true, true
			}
		}
	case "database/sql":
		if nt == nil {
			return "", false, false
		}
		switch nt.Obj().Name() {
		case "DB", "Tx", "Stmt", "Conn":
			if ok {
				return kind, false, true
			}
			if fn.Name() == "Close" && nt.Obj().Name() == "Stmt" {
				return DrvClose, false, true
			}
		}
	}
	return "", false, false
}

// DriverSites lists every driver call site in the 8 packages.
func (p *Program) DriverSites() []*DriverSite {
	var out []*DriverSite
	for _, f := range p.Funcs {
		if f.Body == nil || f.Pkg.PkgPath == pkgUtilTests {
			continue
		}
		info := f.Pkg.TypesInfo
		for _, call := range callsIn(f) {
			fn, _ := typeutil.Callee(info, call).(*types.Func)
			kind, iface, ok := p.driverCallee(fn)
			if !ok {
				continue
			}
			out = append(out, &DriverSite{F: f, Call: call, Callee: fn, Kind: kind, CtxLess: ctxLessNames[fn.Name()], Iface: iface})
		}
	}
	return out
}

// rootFunc returns the outermost declaration containing f.
func rootFunc(f *FuncSrc) *FuncSrc {
	for f.Parent != nil {
		f = f.Parent
	}
	return f
}

// ---- small AST helpers ----

func (p *Program) isNamedPtr(t types.Type, n *types.Named) bool {
	pt, ok := t.(*types.Pointer)
	return ok && types.Identical(pt.Elem(), n)
}

// fieldOf reports whether sel selects field fld (through any embedding path).
func fieldSel(info *types.Info, e ast.Expr, fld *types.Var) bool {
	s, ok := unparen(e).(*ast.SelectorExpr)
	if !ok {
		return false
	}
	sel := info.Selections[s]
	return sel != nil && sel.Kind() == types.FieldVal && sel.Obj() == fld
}

// constString returns the constant string value of e, if any.
func constString(info *types.Info, e ast.Expr) (string, bool) {
	if tv, ok := info.Types[e]; ok && tv.Value != nil && tv.Value.Kind() == constant.String {
		return constant.StringVal(tv.Value), true
	}
	return "", false
}

func constBool(info *types.Info, e ast.Expr) (bool, bool) {
	if tv, ok := info.Types[e]; ok && tv.Value != nil && tv.Value.Kind() == constant.Bool {
		return constant.BoolVal(tv.Value), true
	}
	return false, false
}

// compositeField returns the value given to field name in a keyed composite literal.
func compositeField(lit *ast.CompositeLit, name string) ast.Expr {
	for _, el := range lit.Elts {
		if kv, ok := el.(*ast.KeyValueExpr); ok {
			if id, ok := kv.Key.(*ast.Ident); ok && id.Name == name {
				return kv.Value
			}
		}
	}
	return nil
}

// litOfType finds composite literals of the named type inside n (including &T{}).
func litsOfType(info *types.Info, n ast.Node, t *types.Named, intoLits bool) []*ast.CompositeLit {
	var out []*ast.CompositeLit
	ast.Inspect(n, func(x ast.Node) bool {
		switch x := x.(type) {
		case *ast.FuncLit:
			return intoLits
		case *ast.CompositeLit:
			if tv, ok := info.Types[x]; ok && types.Identical(tv.Type, t) {
				out = append(out, x)
			}
		}
		return true
	})
	return out
}

func posLess(a, b token.Pos) bool { return a < b }
