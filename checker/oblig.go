package main

// Obligations, rules, evidence and known findings.

import (
	"encoding/json"
	"fmt"
	"go/token"
	"os"
	"path/filepath"
	"sort"
	"strings"
	"time"
)

type Verdict string

const (
	OK        Verdict = "ok"
	Violation Verdict = "violation"
	Undecided Verdict = "undecided"
)

type Obligation struct {
	Rule    string   `json:"rule"`
	Key     string   `json:"key"`
	Pos     string   `json:"pos"`
	Verdict Verdict  `json:"verdict"`
	Msg     string   `json:"msg,omitempty"`
	Witness []string `json:"witness,omitempty"`
	Known   bool     `json:"known_finding,omitempty"`
}

type Exemption struct {
	Symbol string `json:"symbol"`
	Reason string `json:"reason"`
	Used   bool   `json:"used"`
}

type Rule struct {
	Name       string
	Desc       string
	Floor      int // minimum number of instances (obligations + exempted) expected
	Obls       []*Obligation
	Exemptions []*Exemption
	Selftest   string // result of the built-in positive example, if any
	keys       map[string]int
	ctx        *Ctx
}

type Ctx struct {
	P        *Program
	Property string
	Tier     string
	Rules    []*Rule
	Notes    []string
	funcsHit map[string]bool
}

func (c *Ctx) Rule(name, desc string, floor int) *Rule {
	r := &Rule{Name: name, Desc: desc, Floor: floor, keys: map[string]int{}, ctx: c}
	c.Rules = append(c.Rules, r)
	return r
}

func (c *Ctx) Touch(f *FuncSrc) {
	if c.funcsHit == nil {
		c.funcsHit = map[string]bool{}
	}
	if f != nil {
		c.funcsHit[f.Pkg.PkgPath+"."+f.name] = true
	}
}

func (c *Ctx) TouchName(s string) {
	if c.funcsHit == nil {
		c.funcsHit = map[string]bool{}
	}
	c.funcsHit[s] = true
}

// key builds the stable obligation key: rule|function|descriptor[#ordinal].
func (r *Rule) key(fn, desc string) string {
	base := r.Name + "|" + fn + "|" + desc
	r.keys[base]++
	if n := r.keys[base]; n > 1 {
		return fmt.Sprintf("%s#%d", base, n)
	}
	return base
}

func (r *Rule) add(v Verdict, fn, desc string, pos token.Pos, msg string, witness ...string) *Obligation {
	o := &Obligation{Rule: r.Name, Key: r.key(fn, desc), Pos: r.ctx.P.Pos(pos), Verdict: v, Msg: msg, Witness: witness}
	r.Obls = append(r.Obls, o)
	r.ctx.TouchName(fn)
	return o
}

func (r *Rule) OK(fn, desc string, pos token.Pos, msg string) { r.add(OK, fn, desc, pos, msg) }
func (r *Rule) Bad(fn, desc string, pos token.Pos, msg string, witness ...string) {
	r.add(Violation, fn, desc, pos, msg, witness...)
}
func (r *Rule) Unknown(fn, desc string, pos token.Pos, msg string) {
	r.add(Undecided, fn, desc, pos, msg)
}

// Check records ok when cond holds, a violation with msg otherwise.
func (r *Rule) Check(cond bool, fn, desc string, pos token.Pos, okMsg, badMsg string, witness ...string) bool {
	if cond {
		r.add(OK, fn, desc, pos, okMsg)
	} else {
		r.add(Violation, fn, desc, pos, badMsg, witness...)
	}
	return cond
}

// Exempt registers a one-symbol exemption; returns a func reporting whether a symbol is exempt.
func (r *Rule) Exempt(symbol, reason string) {
	r.Exemptions = append(r.Exemptions, &Exemption{Symbol: symbol, Reason: reason})
}

func (r *Rule) IsExempt(symbol string) bool {
	for _, e := range r.Exemptions {
		if e.Symbol == symbol {
			e.Used = true
			return true
		}
	}
	return false
}

func (r *Rule) instances() int {
	n := len(r.Obls)
	for _, e := range r.Exemptions {
		if e.Used {
			n++
		}
	}
	return n
}

// ---- known findings ----

type KnownFinding struct {
	Property string `json:"property"`
	Key      string `json:"key"`
	What     string `json:"what"`
	Status   string `json:"status"` // "open" or "fixed: property=<id> <commit> <what failed>"
}

type knownFile struct {
	Findings []KnownFinding `json:"findings"`
}

func loadKnown(verifDir string) []KnownFinding {
	b, err := os.ReadFile(filepath.Join(verifDir, "known_findings.json"))
	if err != nil {
		return nil
	}
	var kf knownFile
	if err := json.Unmarshal(b, &kf); err != nil {
		fatalf("known_findings.json: %v", err)
	}
	return kf.Findings
}

// ---- evidence ----

type ruleEvidence struct {
	Name       string       `json:"name"`
	Desc       string       `json:"desc"`
	Instances  int          `json:"instances"`
	Floor      int          `json:"floor"`
	OK         int          `json:"ok"`
	Violations int          `json:"violations"`
	Known      int          `json:"known_findings"`
	Undecided  int          `json:"undecided"`
	Selftest   string       `json:"selftest,omitempty"`
	Exemptions []*Exemption `json:"exemptions,omitempty"`
}

type mutantEvidence struct {
	Name   string `json:"name"`
	Rule   string `json:"expect_rule"`
	Status string `json:"status"` // killed | survived | stale | broken
	Detail string `json:"detail,omitempty"`
}

type outcome struct {
	exit       int
	violations []*Obligation
	known      []*Obligation
	errors     []string
}

func finish(c *Ctx, verifDir string, start time.Time, mutants []mutantEvidence, writeEvidence bool) outcome {
	var out outcome
	known := loadKnown(verifDir)
	openKeys := map[string]KnownFinding{}
	for _, k := range known {
		if k.Property == c.Property && k.Status == "open" {
			openKeys[k.Key] = k
		}
	}
	total, okN := 0, 0
	var rules []ruleEvidence
	var samples []interface{}
	var all []*Obligation
	for _, r := range c.Rules {
		re := ruleEvidence{Name: r.Name, Desc: r.Desc, Floor: r.Floor, Instances: r.instances(), Selftest: r.Selftest, Exemptions: r.Exemptions}
		for i, o := range r.Obls {
			total++
			all = append(all, o)
			switch o.Verdict {
			case OK:
				re.OK++
				okN++
			case Violation:
				if _, isKnown := openKeys[o.Key]; isKnown {
					o.Known = true
					re.Known++
					out.known = append(out.known, o)
				} else {
					re.Violations++
					out.violations = append(out.violations, o)
				}
			case Undecided:
				re.Undecided++
				out.errors = append(out.errors, fmt.Sprintf("undecided obligation %s at %s: %s", o.Key, o.Pos, o.Msg))
			}
			if i < 3 {
				samples = append(samples, o)
			}
		}
		if re.Instances < r.Floor {
			out.errors = append(out.errors, fmt.Sprintf("rule %s matched %d instances, floor is %d (rule would pass vacuously)", r.Name, re.Instances, r.Floor))
		}
		if strings.HasPrefix(r.Selftest, "FAIL") {
			out.errors = append(out.errors, fmt.Sprintf("rule %s built-in positive example did not fire: %s", r.Name, r.Selftest))
		}
		rules = append(rules, re)
	}
	for _, m := range mutants {
		if m.Status == "survived" || m.Status == "broken" {
			out.errors = append(out.errors, fmt.Sprintf("mutant %s (%s) %s: %s", m.Name, m.Rule, m.Status, m.Detail))
		}
	}
	funcs := make([]string, 0, len(c.funcsHit))
	for f := range c.funcsHit {
		funcs = append(funcs, f)
	}
	sort.Strings(funcs)

	// replay files
	if writeEvidence {
		rdir := filepath.Join(verifDir, "evidence", "replay")
		os.MkdirAll(rdir, 0o755)
		old, _ := filepath.Glob(filepath.Join(rdir, c.Property+"-*.json"))
		for _, f := range old {
			os.Remove(f)
		}
		for i, o := range out.violations {
			path := filepath.Join(rdir, fmt.Sprintf("%s-%d.json", c.Property, i+1))
			b, _ := json.MarshalIndent(map[string]interface{}{"property": c.Property, "obligation": o}, "", " ")
			os.WriteFile(path, b, 0o644)
			fmt.Printf("VIOLATION property=%s replay=%s\n", c.Property, path)
			fmt.Printf("  rule=%s at %s: %s\n", o.Rule, o.Pos, o.Msg)
			for _, w := range o.Witness {
				fmt.Printf("    %s\n", w)
			}
		}
	} else {
		for _, o := range out.violations {
			fmt.Printf("VIOLATION property=%s replay=- key=%q\n", c.Property, o.Key)
			fmt.Printf("  rule=%s at %s: %s\n", o.Rule, o.Pos, o.Msg)
			for _, w := range o.Witness {
				fmt.Printf("    %s\n", w)
			}
		}
	}
	for _, o := range out.known {
		fmt.Printf("KNOWN-FINDING: property=%s %s (%s at %s)\n", c.Property, openKeys[o.Key].What, o.Key, o.Pos)
	}
	for _, e := range out.errors {
		fmt.Printf("CHECKER-ERROR property=%s %s\n", c.Property, e)
	}

	switch {
	case len(out.errors) > 0:
		out.exit = 2
	case len(out.violations) > 0:
		out.exit = 1
	}

	if writeEvidence {
		expl := propertyExplanation[c.Property]
		cov := map[string]interface{}{
			"explanation":         expl,
			"obligations":         total,
			"discharged":          okN,
			"evaluations":         total,
			"distinct_nontrivial": total,
			"rule":                "one obligation per rule instance (call site, store, field, method, path) found by resolving the rule's anchors in the type-checked working tree of /repo; distinct = distinct obligation keys (rule|function|construct)",
			"exhaustive":          true,
			"packages":            len(c.P.Pkgs),
			"functions_analysed":  funcs,
			"rules":               rules,
			"samples":             samples,
			"notes":               c.Notes,
			"checker_errors":      out.errors,
		}
		if c.Tier == "thorough" {
			killed, stale := 0, 0
			for _, m := range mutants {
				switch m.Status {
				case "killed":
					killed++
				case "stale":
					stale++
				}
			}
			cov["mutants"] = map[string]interface{}{"applied": len(mutants), "killed": killed, "stale": stale, "list": mutants}
			cov["all_obligations"] = all
		}
		ev := map[string]interface{}{
			"property_id": c.Property,
			"tier":        c.Tier,
			"seed":        seedFromEnv(),
			"level":       "other",
			"coverage":    cov,
			"assumptions": propertyAssumptions(c.Property),
			"wall_s":      time.Since(start).Seconds(),
			"violations":  len(out.violations),
		}
		b, _ := json.MarshalIndent(ev, "", " ")
		os.MkdirAll(filepath.Join(verifDir, "evidence"), 0o755)
		if err := os.WriteFile(filepath.Join(verifDir, "evidence", c.Property+".json"), b, 0o644); err != nil {
			fmt.Printf("CHECKER-ERROR property=%s cannot write evidence: %v\n", c.Property, err)
			out.exit = 2
		}
	}
	fmt.Printf("property=%s tier=%s rules=%d obligations=%d ok=%d violations=%d known=%d errors=%d wall=%.1fs\n",
		c.Property, c.Tier, len(c.Rules), total, okN, len(out.violations), len(out.known), len(out.errors), time.Since(start).Seconds())
	for _, r := range rules {
		fmt.Printf("  %-28s instances=%-3d floor=%-3d ok=%-3d viol=%d known=%d %s\n", r.Name, r.Instances, r.Floor, r.OK, r.Violations, r.Known, r.Selftest)
	}
	return out
}

func seedFromEnv() int {
	var n int
	fmt.Sscanf(os.Getenv("VERIF_SEED"), "%d", &n)
	return n
}

var commonAssumptions = []string{
	"Go type checker, go/cfg, go/ssa and the VTA call graph of golang.org/x/tools v0.29.0 are correct",
	"pipelines are populated by callbacks.RegisterDefaultCallbacks in source order (dialectors call it); user hooks/scopes/plugins/dialectors/ConnPools are opaque callees that respect their interface contracts",
	"the check decides structural necessary conditions of the property on every path/site of the current source; it does not decide the run-time behaviour itself (see DESIGN.md section 4, 'Not decided')",
}

func propertyAssumptions(id string) []string {
	return append(append([]string{}, commonAssumptions...), extraAssumptions[id]...)
}

var extraAssumptions = map[string][]string{}
var propertyExplanation = map[string]string{}
