package main

// C02.negation-table: a clause expression negated "as a whole" through NegationBuild renders the
// complementary SQL operator of what Build renders.  For every type of package clause that has both
// methods, the operator constants written by Build are compared with those written by the negation
// (directly, or by the sibling type the negation converts to) against the fixed complement table of SQL
// comparison operators.

import (
	"go/ast"
	"go/types"
	"sort"
	"strings"

	"golang.org/x/tools/go/types/typeutil"
)

var sqlOpComplement = map[string][]string{
	"=": {"<>", "!="}, "<>": {"="}, "!=": {"="},
	">": {"<="}, "<=": {">"}, ">=": {"<"}, "<": {">="},
	"LIKE": {"NOT LIKE"}, "NOT LIKE": {"LIKE"},
	"IN": {"NOT IN"}, "NOT IN": {"IN"},
	"IS NULL": {"IS NOT NULL"}, "IS NOT NULL": {"IS NULL", "IN (NULL)"},
	"IN (NULL)": {"IS NOT NULL", "NOT IN"},
}

func normSQLOp(s string) (string, bool) {
	t := strings.ToUpper(strings.TrimSpace(s))
	if t == "IN (NULL)" {
		return t, true
	}
	t = strings.TrimSpace(strings.TrimSuffix(t, "("))
	_, ok := sqlOpComplement[t]
	return t, ok
}

func checkC02Negation(c *Ctx) {
	p := c.P
	r := c.Rule("C02.negation-table", "NegationBuild renders the complementary operator of Build for every negatable clause expression", 6)
	var pkgClauseP *types.Package
	for _, pk := range p.All {
		if pk.PkgPath == pkgClause {
			pkgClauseP = pk.Types
		}
	}
	opsOf := func(f *FuncSrc) map[string]bool {
		out := map[string]bool{}
		info := f.Pkg.TypesInfo
		for _, call := range callsIn(f) {
			sel, ok := call.Fun.(*ast.SelectorExpr)
			if !ok || sel.Sel.Name != "WriteString" || len(call.Args) != 1 {
				continue
			}
			if s, ok := constString(info, call.Args[0]); ok {
				if op, ok := normSQLOp(s); ok {
					out[op] = true
				}
			}
		}
		return out
	}
	names := pkgClauseP.Scope().Names()
	sort.Strings(names)
	for _, name := range names {
		tn, ok := pkgClauseP.Scope().Lookup(name).(*types.TypeName)
		if !ok {
			continue
		}
		nt, ok := tn.Type().(*types.Named)
		if !ok {
			continue
		}
		bm, nm := p.MethodOpt(nt, "Build"), p.MethodOpt(nt, "NegationBuild")
		if bm == nil || nm == nil {
			continue
		}
		bs, ns := p.SrcOpt(bm), p.SrcOpt(nm)
		if bs == nil || ns == nil {
			continue
		}
		c.Touch(bs)
		c.Touch(ns)
		buildOps := opsOf(bs)
		negOps := opsOf(ns)
		via := ""
		// negation by conversion to a sibling type: U(x).Build(builder)
		if len(negOps) == 0 {
			info := ns.Pkg.TypesInfo
			for _, call := range callsIn(ns) {
				fn, _ := typeutil.Callee(info, call).(*types.Func)
				if fn == nil || fn.Name() != "Build" {
					continue
				}
				if sig := fn.Type().(*types.Signature); sig.Recv() != nil {
					if un, ok := sig.Recv().Type().(*types.Named); ok {
						if us := p.SrcOpt(fn); us != nil {
							negOps = opsOf(us)
							via = " (through " + un.Obj().Name() + ".Build)"
						}
					}
				}
			}
		}
		if len(buildOps) == 0 {
			continue // not an operator expression (groups etc.)
		}
		var problems []string
		list := func(m map[string]bool) string {
			var l []string
			for k := range m {
				l = append(l, k)
			}
			sort.Strings(l)
			return strings.Join(l, " ")
		}
		for o := range buildOps {
			hit := false
			for _, co := range sqlOpComplement[o] {
				if negOps[co] {
					hit = true
				}
			}
			if !hit {
				problems = append(problems, "Build renders `"+o+"` but the negation renders none of {"+strings.Join(sqlOpComplement[o], ", ")+"}")
			}
		}
		for o := range negOps {
			hit := false
			for bo := range buildOps {
				for _, co := range sqlOpComplement[bo] {
					if co == o {
						hit = true
					}
				}
			}
			if !hit {
				problems = append(problems, "the negation renders `"+o+"`, which is the complement of nothing Build renders")
			}
		}
		sort.Strings(problems)
		r.Check(len(problems) == 0, ns.Name(), "complement of "+name+".Build", ns.Body.Pos(), "Build {"+list(buildOps)+"} / negation {"+list(negOps)+"}"+via, "Not("+name+"{..}) does not select the complement of "+name+"{..}: "+strings.Join(problems, "; ")+" [Build {"+list(buildOps)+"}, negation {"+list(negOps)+"}"+via+"]")
	}
}

// C02.pk-sources: "the primary key of the model value is an AND-combined unit".  Delete takes the key from
// two places - the value handed to Delete (Statement.ReflectValue) and, when it is a different value, the
// model given with Model() - and there are two sibling builders of the DELETE conditions (the hard-delete
// executor and the soft-delete modifier).  Both must read both sources, the second one from Statement.Model.
func checkC02PkSources(c *Ctx) {
	checkPkSources(c, c.Rule("C02.pk-sources", "SIBLINGS(delete builders): primary-key conditions are taken from Statement.ReflectValue and from Statement.Model", 2))
}

func checkPkSources(c *Ctx, r *Rule) {
	p := c.P
	gif := p.FuncDecl(pkgSchema, "GetIdentityFieldValuesMap").Obj
	stmtT := p.Named(pkgGorm, "Statement")
	rvF, modelF, pfF := p.Field(stmtT, "ReflectValue"), p.Field(stmtT, "Model"), p.Field(p.Named(pkgSchema, "Schema"), "PrimaryFields")
	var sites []*FuncSrc
	if del := p.FuncDecl(pkgCallbacks, "Delete"); del != nil {
		for _, l := range p.AllLits(del) {
			if l.Parent == del {
				sites = append(sites, l)
			}
		}
	}
	sites = append(sites, p.MethodDecl(pkgGorm, "SoftDeleteDeleteClause", "ModifyStatement"))
	for _, f := range sites {
		c.Touch(f)
		info := f.Pkg.TypesInfo
		fromValue, fromModel := false, false
		n := 0
		for _, call := range callsIn(f) {
			if fn, _ := typeutil.Callee(info, call).(*types.Func); fn != gif || len(call.Args) != 3 {
				continue
			}
			// only the model's own primary fields (association deletes use foreign fields)
			if !fieldSel(info, call.Args[2], pfF) {
				continue
			}
			n++
			src := unparen(call.Args[1])
			// a single-definition local stands for its definition
			if id, ok := src.(*ast.Ident); ok {
				if ds := localDefs(f, id.Name, id.Pos()); len(ds) == 1 && ds[0].rhs != nil {
					src = unparen(ds[0].rhs)
				}
			}
			if fieldSel(info, src, rvF) {
				fromValue = true
			}
			if ce, ok := src.(*ast.CallExpr); ok && len(ce.Args) == 1 && fieldSel(info, ce.Args[0], modelF) {
				if fn, _ := typeutil.Callee(info, ce).(*types.Func); fn != nil && fn.FullName() == "reflect.ValueOf" {
					fromModel = true
				}
			}
		}
		r.Check(n >= 2 && fromValue && fromModel, f.Name(), "key conditions from the deleted value and from Model()", f.Body.Pos(), "GetIdentityFieldValuesMap over Statement.ReflectValue and over reflect.ValueOf(Statement.Model)", "the delete builder does not take the primary key from both the value handed to Delete and the value given with Model(): db.Model(&T{ID: k}).Where(c).Delete(&T{}) loses `AND id = k` and deletes every row matching c")
	}
}
