package main

func init() {
	addMutants(
		Mutant{Name: "c19-rawexec-drop-dryrun", Property: "C19", Rule: "C19.guard", Edits: []Edit{{"callbacks/raw.go", "if db.Error == nil && !db.DryRun {", "if db.Error == nil {"}}},
		Mutant{Name: "c19-rowquery-exec-before-dryrun-test", Property: "C19", Rule: "C19.guard", Edits: []Edit{{"callbacks/row.go", "if db.DryRun || db.Error != nil {", "if db.Error != nil {"}}},
		Mutant{Name: "c19-create-isdryrun-bool", Property: "C19", Rule: "C19.guard", Edits: []Edit{{"callbacks/create.go", "isDryRun := !db.DryRun && db.Error == nil", "isDryRun := db.Error == nil"}}},
		Mutant{Name: "c19-update-rebuilt-sql", Property: "C19", Rule: "C19.same-statement", Edits: []Edit{{"callbacks/update.go", "result, err := db.Statement.ConnPool.ExecContext(db.Statement.Context, db.Statement.SQL.String(), db.Statement.Vars...)", "result, err := db.Statement.ConnPool.ExecContext(db.Statement.Context, db.Statement.SQL.String()+\" \", db.Statement.Vars...)"}}},
		Mutant{Name: "c19-delete-other-pool", Property: "C19", Rule: "C19.same-statement", Edits: []Edit{{"callbacks/delete.go", "result, err := db.Statement.ConnPool.ExecContext(", "result, err := db.ConnPool.ExecContext("}}},
		Mutant{Name: "c19-execute-reset-always", Property: "C19", Rule: "C19.keep", Edits: []Edit{{"callbacks.go", "if !stmt.DB.DryRun {\n\t\tstmt.SQL.Reset()", "if !stmt.DB.DryRun || stmt.SQL.Len() > 1<<20 {\n\t\tstmt.SQL.Reset()"}}},
		Mutant{Name: "c19-subquery-not-dryrun", Property: "C19", Rule: "C19.subquery", Edits: []Edit{{"statement.go", "Session(&Session{Logger: logger.Discard, DryRun: true})", "Session(&Session{Logger: logger.Discard, DryRun: false})"}}},
		Mutant{Name: "c19-tosql-no-skip-tx", Property: "C19", Rule: "C19.tosql", Edits: []Edit{{"gorm.go", "db.Session(&Session{DryRun: true, SkipDefaultTransaction: true})", "db.Session(&Session{DryRun: true})"}}},
		Mutant{Name: "c19-begin-tx-unguarded", Property: "C19", Rule: "C19.tosql", Edits: []Edit{{"callbacks/transaction.go", "if !db.Config.SkipDefaultTransaction && db.Error == nil {", "if db.Error == nil {"}}},
		Mutant{Name: "c19-session-drops-dryrun", Property: "C19", Rule: "C19.tosql", Edits: []Edit{{"gorm.go", "\tif config.DryRun {\n\t\ttx.Config.DryRun = true\n\t}\n", ""}}},
		Mutant{Name: "c19-count-direct-driver-call", Property: "C19", Rule: "C19.only-executors", Edits: []Edit{{"finisher_api.go", "\ttx.Statement.Dest = count\n", "\tif sqlDB, err := tx.DB(); err == nil {\n\t\tsqlDB.QueryRowContext(tx.Statement.Context, \"select 1\")\n\t}\n\ttx.Statement.Dest = count\n"}}},
	)
}
