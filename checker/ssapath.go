package main

// SSA helpers used only where a rule must identify a value: rendering the
// origin of a value as access paths rooted at parameters/free variables
// (a backward slice through loads, field selections, conversions, phis and
// single-store allocations), finding the SSA call for an AST call, and
// enumerating stores to a struct field.

import (
	"fmt"
	"go/ast"
	"go/token"
	"go/types"
	"sort"
	"strings"

	"golang.org/x/tools/go/ssa"
)

// allocStores returns the values stored directly into alloc a (nil, false if its address escapes other than via closures).
func allocStores(a *ssa.Alloc) ([]ssa.Value, bool) {
	var vals []ssa.Value
	for _, r := range *a.Referrers() {
		switch r := r.(type) {
		case *ssa.Store:
			if r.Addr == a {
				vals = append(vals, r.Val)
			}
		}
	}
	return vals, true
}

// freeVarBinding returns the value bound to free variable fv at the (unique) MakeClosure of its function.
func freeVarBinding(fv *ssa.FreeVar) ssa.Value {
	fn := fv.Parent()
	parent := fn.Parent()
	if parent == nil {
		return nil
	}
	idx := -1
	for i, f := range fn.FreeVars {
		if f == fv {
			idx = i
		}
	}
	if idx < 0 {
		return nil
	}
	var found ssa.Value
	n := 0
	for _, b := range parent.Blocks {
		for _, in := range b.Instrs {
			if mc, ok := in.(*ssa.MakeClosure); ok && mc.Fn == fn {
				n++
				found = mc.Bindings[idx]
			}
		}
	}
	if n == 1 {
		return found
	}
	return nil
}

// valuePaths renders the possible origins of v.
func valuePaths(v ssa.Value) []string {
	set := map[string]bool{}
	var rec func(v ssa.Value, depth int, seen map[ssa.Value]bool) []string
	rec = func(v ssa.Value, depth int, seen map[ssa.Value]bool) []string {
		if depth > 40 {
			return []string{"?deep"}
		}
		if seen[v] {
			return nil
		}
		seen[v] = true
		defer delete(seen, v)
		one := func(x ssa.Value, suffix string) []string {
			ps := rec(x, depth+1, seen)
			out := make([]string, len(ps))
			for i, p := range ps {
				out[i] = p + suffix
			}
			return out
		}
		switch v := v.(type) {
		case *ssa.Parameter:
			return []string{v.Name()}
		case *ssa.FreeVar:
			if b := freeVarBinding(v); b != nil {
				return rec(b, depth+1, seen)
			}
			return []string{"free:" + v.Name()}
		case *ssa.Const:
			if v.Value == nil {
				return []string{"const:nil"}
			}
			return []string{"const:" + v.Value.ExactString()}
		case *ssa.Global:
			return []string{"global:" + v.Name()}
		case *ssa.Function:
			return []string{"func:" + v.Name()}
		case *ssa.Builtin:
			return []string{"builtin:" + v.Name()}
		case *ssa.Alloc:
			// the address of a local; a parameter spilled because a closure/defer captures it or
			// its address is taken (value receivers) stands for that parameter
			if prm := spilledParam(v); prm != nil {
				return []string{prm.Name()}
			}
			return []string{"alloc:" + v.Comment}
		case *ssa.UnOp:
			if v.Op == token.MUL {
				return loadPaths(v.X, depth+1, seen, rec)
			}
			return one(v.X, "")
		case *ssa.FieldAddr:
			return one(v.X, "."+fieldName(v.X.Type(), v.Field))
		case *ssa.Field:
			return one(v.X, "."+fieldName(v.X.Type(), v.Field))
		case *ssa.IndexAddr:
			return one(v.X, "[]")
		case *ssa.Index:
			return one(v.X, "[]")
		case *ssa.Lookup:
			ks := "k"
			if c, ok := v.Index.(*ssa.Const); ok && c.Value != nil {
				ks = c.Value.ExactString()
			}
			return one(v.X, "["+ks+"]")
		case *ssa.Slice:
			return rec(v.X, depth+1, seen)
		case *ssa.MakeInterface:
			return rec(v.X, depth+1, seen)
		case *ssa.ChangeInterface:
			return rec(v.X, depth+1, seen)
		case *ssa.ChangeType:
			return rec(v.X, depth+1, seen)
		case *ssa.Convert:
			return rec(v.X, depth+1, seen)
		case *ssa.TypeAssert:
			return rec(v.X, depth+1, seen)
		case *ssa.Extract:
			if v.Index == 0 {
				switch t := v.Tuple.(type) {
				case *ssa.TypeAssert:
					return rec(t, depth+1, seen)
				case *ssa.Lookup:
					return rec(t, depth+1, seen)
				}
			}
			return one(v.Tuple, fmt.Sprintf("#%d", v.Index))
		case *ssa.Phi:
			var out []string
			for _, e := range v.Edges {
				out = append(out, rec(e, depth+1, seen)...)
			}
			return out
		case *ssa.MakeClosure:
			return []string{"closure:" + v.Fn.Name()}
		case *ssa.Call:
			c := v.Call
			if c.IsInvoke() {
				return one(c.Value, "."+c.Method.Name()+"()")
			}
			if fn := c.StaticCallee(); fn != nil {
				if fn.Signature.Recv() != nil && len(c.Args) > 0 {
					return one(c.Args[0], "."+fn.Name()+"()")
				}
				name := fn.Name()
				if fn.Pkg != nil {
					name = fn.Pkg.Pkg.Name() + "." + name
				}
				return []string{"call:" + name}
			}
			if b, ok := c.Value.(*ssa.Builtin); ok {
				if b.Name() == "append" && len(c.Args) > 0 {
					return one(c.Args[0], "+append")
				}
				return []string{"builtin:" + b.Name()}
			}
			// dynamic call of a function value: a scope-like func(*DB) *DB returns, by contract,
			// a handle derived from the one it is given
			for _, a := range c.Args {
				if a.Type().String() == "*gorm.io/gorm.DB" && v.Type().String() == "*gorm.io/gorm.DB" {
					return one(a, ".dyn()")
				}
			}
			return one(c.Value, "()")
		case *ssa.BinOp:
			return []string{"binop"}
		case *ssa.MakeMap:
			return []string{"makemap"}
		case *ssa.MakeSlice:
			return []string{"makeslice"}
		case *ssa.MakeChan:
			return []string{"makechan"}
		}
		return []string{fmt.Sprintf("?%T", v)}
	}
	for _, p := range rec(v, 0, map[ssa.Value]bool{}) {
		set[p] = true
	}
	out := make([]string, 0, len(set))
	for p := range set {
		out = append(out, p)
	}
	sort.Strings(out)
	return out
}

func fieldName(t types.Type, i int) string {
	if pt, ok := t.Underlying().(*types.Pointer); ok {
		t = pt.Elem()
	}
	if st, ok := t.Underlying().(*types.Struct); ok && i < st.NumFields() {
		return st.Field(i).Name()
	}
	return fmt.Sprintf("f%d", i)
}

func fieldVar(t types.Type, i int) *types.Var {
	if pt, ok := t.Underlying().(*types.Pointer); ok {
		t = pt.Elem()
	}
	if st, ok := t.Underlying().(*types.Struct); ok && i < st.NumFields() {
		return st.Field(i)
	}
	return nil
}

// ssaCall finds the SSA call instruction for an AST call inside fn (searching nested closures too).
func (p *Program) ssaCall(f *FuncSrc, call *ast.CallExpr) ssa.CallInstruction {
	fn := p.SSAOf(f)
	var found ssa.CallInstruction
	var search func(fn *ssa.Function)
	search = func(fn *ssa.Function) {
		for _, b := range fn.Blocks {
			for _, in := range b.Instrs {
				if ci, ok := in.(ssa.CallInstruction); ok {
					if ci.Pos() == call.Lparen || ci.Common().Pos() == call.Lparen {
						found = ci
						return
					}
				}
			}
		}
	}
	search(fn)
	return found
}

// FieldStore is one SSA store into a struct field.
type FieldStore struct {
	Fn    *ssa.Function
	Instr ssa.Instruction
	Addr  *ssa.FieldAddr
	Val   ssa.Value // nil when the address escapes without a direct store
	Pos   token.Pos
	// Fresh is true when the struct being written was allocated in this function
	// (composite literal under construction).
	Fresh bool
}

// FieldStores enumerates every store through FieldAddr of fld in the repo, and every other
// use of such an address that is not a load (reported with Val == nil).
func (p *Program) FieldStores(fld *types.Var) []*FieldStore {
	var out []*FieldStore
	for _, fn := range p.SSAFuncs() {
		for _, b := range fn.Blocks {
			for _, in := range b.Instrs {
				fa, ok := in.(*ssa.FieldAddr)
				if !ok || fieldVar(fa.X.Type(), fa.Field) != fld {
					continue
				}
				for _, r := range *fa.Referrers() {
					switch r := r.(type) {
					case *ssa.Store:
						if r.Addr == fa {
							out = append(out, &FieldStore{Fn: fn, Instr: r, Addr: fa, Val: r.Val, Pos: storePos(r, fa), Fresh: isFreshAlloc(fa.X)})
						} else {
							out = append(out, &FieldStore{Fn: fn, Instr: r, Addr: fa, Pos: storePos(r, fa)})
						}
					case *ssa.UnOp:
						// load
					case *ssa.FieldAddr, *ssa.IndexAddr:
						// address of a sub-object: writes to it are writes to other fields/elements
					case *ssa.DebugRef:
					default:
						if _, isCall := r.(ssa.CallInstruction); isCall {
							// method call on the field's address (e.g. strings.Builder methods) - not a store of the field
							continue
						}
						out = append(out, &FieldStore{Fn: fn, Instr: r, Addr: fa, Pos: r.Pos()})
					}
				}
			}
		}
	}
	sort.SliceStable(out, func(i, j int) bool { return out[i].Pos < out[j].Pos })
	return out
}

func storePos(s *ssa.Store, fa *ssa.FieldAddr) token.Pos {
	if s.Pos().IsValid() {
		return s.Pos()
	}
	return fa.Pos()
}

func isFreshAlloc(v ssa.Value) bool {
	switch v := v.(type) {
	case *ssa.Alloc:
		return true
	case *ssa.UnOp:
		_ = v
	}
	return false
}

// rootedAt reports whether every origin path of v starts with root (exact or followed by '.').
func rootedAt(paths []string, root string) bool {
	if len(paths) == 0 {
		return false
	}
	for _, p := range paths {
		if p != root && !strings.HasPrefix(p, root+".") {
			return false
		}
	}
	return true
}

// spilledParam returns the parameter whose value is the only thing ever stored into a.
func spilledParam(a *ssa.Alloc) *ssa.Parameter {
	vals, _ := allocStores(a)
	if len(vals) != 1 {
		return nil
	}
	prm, _ := vals[0].(*ssa.Parameter)
	return prm
}

// loadPaths renders the value obtained by loading from address addr, looking through
// local cells (allocs, fields of local structs, captured variables).
func loadPaths(addr ssa.Value, depth int, seen map[ssa.Value]bool, rec func(ssa.Value, int, map[ssa.Value]bool) []string) []string {
	if depth > 40 {
		return []string{"?deep"}
	}
	if fv, ok := addr.(*ssa.FreeVar); ok {
		if b := freeVarBinding(fv); b != nil {
			addr = b
		}
	}
	switch a := addr.(type) {
	case *ssa.Alloc:
		vals, _ := allocStores(a)
		if len(vals) == 0 {
			return []string{"alloc:" + a.Comment}
		}
		var out []string
		for _, sv := range vals {
			out = append(out, rec(sv, depth+1, seen)...)
		}
		return out
	case *ssa.FieldAddr:
		base := a.X
		if fv, ok := base.(*ssa.FreeVar); ok {
			if b := freeVarBinding(fv); b != nil {
				base = b
			}
		}
		fname := "." + fieldName(a.X.Type(), a.Field)
		switch base.(type) {
		case *ssa.Alloc, *ssa.FieldAddr:
			var out []string
			for _, p := range loadPaths(base, depth+1, seen, rec) {
				out = append(out, p+fname)
			}
			// direct stores into this field of the local cell
			if al, ok := base.(*ssa.Alloc); ok {
				direct := false
				for _, r := range *al.Referrers() {
					if fa, ok := r.(*ssa.FieldAddr); ok && fa.Field == a.Field {
						for _, rr := range *fa.Referrers() {
							if st, ok := rr.(*ssa.Store); ok && st.Addr == fa {
								out = append(out, rec(st.Val, depth+1, seen)...)
								direct = true
							}
						}
					}
				}
				if direct {
					// the whole-struct paths remain possible only if the struct was stored whole
					if vals, _ := allocStores(al); len(vals) == 0 {
						var only []string
						for _, p := range out {
							if !strings.HasPrefix(p, "alloc:") {
								only = append(only, p)
							}
						}
						if len(only) > 0 {
							out = only
						}
					}
				}
			}
			return out
		}
		return rec(a, depth+1, seen)
	}
	return rec(addr, depth+1, seen)
}
