package main

// C02 — chained conditions select exactly the rows of their logical combination (narrow).

import (
	"go/ast"
	"go/token"
	"go/types"
	"sort"
	"strings"

	"golang.org/x/tools/go/ssa"
	"golang.org/x/tools/go/types/typeutil"
)

func init() {
	register("C02", checkC02,
		"Narrow structural clauses of C02: (merge) merging a clause that carries a list (Where.Exprs, GroupBy.Columns, GroupBy.Having, OrderBy.Columns, Returning.Columns) stores a list that depends on both the earlier clause's list and the new one (SSA contributors through append and copy), so no earlier or new unit is lost; (siblings) every function of package clause that decides parenthesisation by looking for AND/OR in raw SQL text reads the text of both raw unit types, clause.Expr and clause.NamedExpr (directly or through a helper); (empty) empty condition forms add no clause (shared with C09.empty). NOT decided: the selected row set, three-valued logic, and the substring test for AND/OR itself (it is blind to tabs/newlines - a value-level defect outside structural reach).")
}

// sliceContributors returns the origin paths that flow into slice value v through append and copy.
func sliceContributors(fn *ssa.Function, v ssa.Value, depth int, seen map[ssa.Value]bool) []string {
	if depth > 12 || seen[v] {
		return nil
	}
	seen[v] = true
	var out []string
	switch x := v.(type) {
	case *ssa.Call:
		if b, ok := x.Call.Value.(*ssa.Builtin); ok && b.Name() == "append" {
			for _, a := range x.Call.Args {
				out = append(out, sliceContributors(fn, a, depth+1, seen)...)
			}
			return out
		}
	case *ssa.Slice:
		return sliceContributors(fn, x.X, depth+1, seen)
	case *ssa.Phi:
		for _, e := range x.Edges {
			out = append(out, sliceContributors(fn, e, depth+1, seen)...)
		}
		return out
	case *ssa.MakeSlice:
		// everything copied into it
		forEachInstr(fn, func(owner *ssa.Function, in ssa.Instruction) {
			c, ok := in.(*ssa.Call)
			if !ok {
				return
			}
			if b, ok := c.Call.Value.(*ssa.Builtin); !ok || b.Name() != "copy" {
				return
			}
			dst := c.Call.Args[0]
			for {
				if sl, ok := dst.(*ssa.Slice); ok {
					dst = sl.X
					continue
				}
				break
			}
			if dst == ssa.Value(x) {
				out = append(out, sliceContributors(fn, c.Call.Args[1], depth+1, seen)...)
			}
		})
		return out
	case *ssa.UnOp:
		// load of a local slice variable: look through
		if al, ok := x.X.(*ssa.Alloc); ok {
			vals, _ := allocStores(al)
			if len(vals) > 0 && spilledParam(al) == nil {
				for _, sv := range vals {
					out = append(out, sliceContributors(fn, sv, depth+1, seen)...)
				}
				return out
			}
		}
	}
	return valuePaths(v)
}

func checkC02(c *Ctx) {
	p := c.P
	p.SSA()

	// the batch cursor restricts the whole user condition (same rule as C15.cursor-group)
	checkCursorGroup(c, c.Rule("C02.cursor-group", "FindInBatches regroups lone-OR conditions on the statement the batch cursor is added to", 1))

	// ---- C02.merge ----
	rm := c.Rule("C02.merge", "MergeClause of list-carrying clauses keeps both the earlier and the new list", 5)
	clauseT := p.Named(pkgClause, "Clause")
	lists := map[string][]string{"Where": {"Exprs"}, "GroupBy": {"Columns", "Having"}, "OrderBy": {"Columns"}, "Returning": {"Columns"}}
	var tnames []string
	for n := range lists {
		tnames = append(tnames, n)
	}
	sort.Strings(tnames)
	for _, tn := range tnames {
		t := p.Named(pkgClause, tn)
		m := p.MethodOpt(t, "MergeClause")
		if m == nil {
			rm.Bad("clause."+tn, "MergeClause", t.Obj().Pos(), "clause type "+tn+" has no MergeClause")
			continue
		}
		fn := p.SSAFunc(m)
		if fn.Signature.Params().Len() != 1 || !p.isNamedPtr(fn.Signature.Params().At(0).Type(), clauseT) {
			continue
		}
		recv := fn.Params[0].Name()
		cl := fn.Params[1].Name()
		c.TouchName(ssaFuncName(fn))
		for _, lf := range lists[tn] {
			fld := p.Field(t, lf)
			best := map[string]bool{}
			found := false
			forEachInstr(fn, func(owner *ssa.Function, in ssa.Instruction) {
				st, ok := in.(*ssa.Store)
				if !ok {
					return
				}
				fa, ok := st.Addr.(*ssa.FieldAddr)
				if !ok || fieldVar(fa.X.Type(), fa.Field) != fld {
					return
				}
				cs := sliceContributors(fn, st.Val, 0, map[ssa.Value]bool{})
				hasOld, hasNew := false, false
				for _, pth := range cs {
					base := strings.TrimSuffix(pth, "+append")
					if base == cl+".Expression."+lf {
						hasOld = true
					}
					if base == recv+"."+lf {
						hasNew = true
					}
					best[pth] = true
				}
				if hasOld && hasNew {
					found = true
				}
			})
			var seen []string
			for k := range best {
				seen = append(seen, k)
			}
			sort.Strings(seen)
			rm.Check(found, ssaFuncName(fn), "merged "+lf+" keeps earlier and new units", fn.Pos(), "contributors include "+cl+".Expression."+lf+" and "+recv+"."+lf, "merging a second "+tn+" clause does not combine the earlier "+lf+" with the new ones: an earlier (or the new) condition/column is silently dropped", "contributors: "+strings.Join(seen, ", "))
		}
	}

	// ---- C02.siblings ----
	// Every place that decides parenthesisation by looking for AND/OR in the raw SQL text of some
	// subject expression must do so for both raw unit types (Expr and NamedExpr) of that subject,
	// and must look for both connectives.
	checkParenDecisions(c, c.Rule("C02.siblings", "each parenthesisation decision covers both raw unit types (Expr, NamedExpr) of its subject, both connectives (AND, OR), on an upper-cased copy of the text", 4))

	// ---- C02.not-members ----
	rnm := c.Rule("C02.not-members", "NotConditions.Build decides per member: every NegationExpressionBuilder test is applied to the range variable of a loop over all members", 2)
	{
		nb := p.MethodDecl(pkgClause, "NotConditions", "Build")
		c.Touch(nb)
		info := nb.Pkg.TypesInfo
		negI := p.Named(pkgClause, "NegationExpressionBuilder")
		recv := recvName(nb)
		parents := parentMap(nb.Body)
		n := 0
		ast.Inspect(nb.Body, func(x ast.Node) bool {
			ta, ok := x.(*ast.TypeAssertExpr)
			if !ok || ta.Type == nil {
				return true
			}
			if tv, ok := info.Types[ta.Type]; !ok || !types.Identical(tv.Type, negI) {
				return true
			}
			n++
			okm := false
			if id, ok := unparen(ta.X).(*ast.Ident); ok {
				for cur := parents[ta]; cur != nil; cur = parents[cur] {
					if rs, ok := cur.(*ast.RangeStmt); ok {
						if v, ok := rs.Value.(*ast.Ident); ok && info.Defs[v] == info.Uses[id] && strings.HasPrefix(canon(info, rs.X), recv+".") {
							okm = true
						}
					}
				}
			}
			rnm.Check(okm, nb.Name(), "negation-builder test on each member", ta.Pos(), "applied to the loop variable over "+recv+".Exprs", "NOT decides how to negate a group from a single, fixed member instead of looking at every member: a mixed group (raw condition + map/struct/Eq) is negated as a whole instead of member by member (or the other way round)")
			return true
		})
		rnm.Check(n >= 2, nb.Name(), "detects and dispatches negation builders", nb.Body.Pos(), "detection and rendering both test members", "NotConditions.Build no longer tests its members for NegationExpressionBuilder")
	}

	// ---- C02.empty ----
	checkC02Negation(c)
	checkC02PkSources(c)
	checkC02OperatorFixed(c)
	checkC02NotUnwrap(c)
	checkC02AndWrap(c)
	checkC02NilAgree(c)
	checkC02InlineAnd(c)
	checkMergeUnconditional(c, c.Rule("C02.merge-unconditional", "merging a list-carrying clause keeps the earlier units whatever the new clause carries", 4))
	checkRegroupScans(c, c.Rule("C02.regroup-scan", "lone-OR regrouping before a library condition scans all members of the WHERE clause", 2))
	checkPresizedAppend(c, c.Rule("C02.presized-append", "slices created with make([]T, n) are filled by index, never appended to (IN lists without leading NULLs)", 2))
	checkEmptyForms(c, c.Rule("C02.empty", "empty condition forms add no clause (same rule as C09.empty)", 14))
}

func rawKinds(e, n bool) string {
	switch {
	case e && !n:
		return "clause.Expr"
	case n && !e:
		return "clause.NamedExpr"
	}
	return "neither raw type"
}

func identOf(e ast.Expr) *ast.Ident {
	id, _ := unparen(e).(*ast.Ident)
	return id
}

var _ = types.Universe

// checkParenDecisions: the parenthesisation decisions of package clause (C02.siblings; instantiated for C08 as
// C08.raw-grouping because the soft-delete filter is ANDed next to exactly these units).
func checkParenDecisions(c *Ctx, rs *Rule) {
	p := c.P
	exprT := p.Named(pkgClause, "Expr")
	nexprT := p.Named(pkgClause, "NamedExpr")
	exprSQL := p.Field(exprT, "SQL")
	nexprSQL := p.Field(nexprT, "SQL")
	andC := p.Lookup(pkgClause, "AndWithSpace")
	orC := p.Lookup(pkgClause, "OrWithSpace")
	readsSQL := func(fn *ssa.Function) (bool, bool) {
		e, n := false, false
		forEachInstr(fn, func(owner *ssa.Function, in ssa.Instruction) {
			switch x := in.(type) {
			case *ssa.Field:
				fv := fieldVar(x.X.Type(), x.Field)
				e = e || fv == exprSQL
				n = n || fv == nexprSQL
			case *ssa.FieldAddr:
				fv := fieldVar(x.X.Type(), x.Field)
				e = e || fv == exprSQL
				n = n || fv == nexprSQL
			}
		})
		return e, n
	}
	type group struct {
		f        *FuncSrc
		subject  string
		pos      token.Pos
		expr, nm bool
		and, or  bool
		folded   bool // every inspection works on a case-normalised copy of the text
		sites    int
	}
	groups := map[string]*group{}
	// helpers: package functions that look for a connective in (a normalisation of) one of their string parameters;
	// the decision is then made where they are called, on the argument passed
	type helperUse struct {
		param  int
		conn   types.Object
		folded bool
	}
	helpers := map[*types.Func][]helperUse{}
	paramIndex := func(f *FuncSrc, id *ast.Ident) int {
		if f.Decl == nil || f.Decl.Type.Params == nil {
			return -1
		}
		obj := f.Pkg.TypesInfo.Uses[id]
		i := 0
		for _, fl := range f.Decl.Type.Params.List {
			for _, nm := range fl.Names {
				if f.Pkg.TypesInfo.Defs[nm] == obj && obj != nil {
					return i
				}
				i++
			}
		}
		return -1
	}
	// site: one inspection of `text` for connective conn, made in f at node at
	var site func(f *FuncSrc, at ast.Node, text ast.Expr, conn types.Object, foldedAlready bool, allowHelper bool)
	site = func(f *FuncSrc, at ast.Node, text ast.Expr, conn types.Object, foldedAlready bool, allowHelper bool) {
		info := f.Pkg.TypesInfo
		parents := parentMap(f.Body)
		var subject string
		var cov struct{ e, n bool }
		folded := foldedAlready
		helperParam := -1
		var follow func(e ast.Expr, depth int)
		follow = func(e ast.Expr, depth int) {
			if depth > 6 || e == nil {
				return
			}
			e = unparen(e)
			switch x := e.(type) {
			case *ast.CallExpr:
				name := calleeName(info, x)
				if strings.HasPrefix(name, "strings.") && len(x.Args) >= 1 {
					if name == "strings.ToUpper" {
						folded = true
					}
					follow(x.Args[0], depth+1)
					return
				}
				// helper of the package returning the raw text of its argument
				if fn, _ := typeutil.Callee(info, x).(*types.Func); fn != nil && fn.Pkg() != nil && fn.Pkg().Path() == pkgClause && len(x.Args) == 1 {
					he, hn := readsSQL(p.SSAFunc(fn))
					cov.e, cov.n = cov.e || he, cov.n || hn
					subject = canon(info, x.Args[0])
				}
			case *ast.Ident:
				defs := localDefs(f, x.Name, at.Pos())
				if len(defs) == 0 {
					if i := paramIndex(f, x); i >= 0 {
						helperParam = i
					}
				}
				for _, d := range defs {
					follow(d.rhs, depth+1)
				}
			case *ast.SelectorExpr:
				if x.Sel.Name != "SQL" {
					return
				}
				isE, isN := fieldSel(info, x, exprSQL), fieldSel(info, x, nexprSQL)
				holder, ok := unparen(x.X).(*ast.Ident)
				if !ok || (!isE && !isN) {
					return
				}
				// how was the holder bound?
				for _, d := range localDefs(f, holder.Name, at.Pos()) {
					if ta, ok := unparen(d.rhs).(*ast.TypeAssertExpr); ok && ta.Type != nil {
						subject = canon(info, ta.X)
						cov.e, cov.n = cov.e || isE, cov.n || isN
					}
				}
				if subject == "" {
					// bound by a type switch clause
					for cur := parents[at]; cur != nil; cur = parents[cur] {
						if ts, ok := cur.(*ast.TypeSwitchStmt); ok {
							if as, ok := ts.Assign.(*ast.AssignStmt); ok && len(as.Lhs) == 1 {
								if id, ok := as.Lhs[0].(*ast.Ident); ok && id.Name == holder.Name {
									if ta, ok := unparen(as.Rhs[0]).(*ast.TypeAssertExpr); ok {
										subject = canon(info, ta.X) + "@switch" + itoa(int(ts.Pos()))
										cov.e, cov.n = cov.e || isE, cov.n || isN
									}
								}
							}
						}
					}
				}
			}
		}
		follow(text, 0)
		if subject == "" && helperParam >= 0 && allowHelper && f.Obj != nil {
			helpers[f.Obj] = append(helpers[f.Obj], helperUse{helperParam, conn, folded})
			return
		}
		if subject == "" {
			rs.Unknown(f.Name(), "decision site", at.Pos(), "cannot determine whose SQL text is inspected")
			return
		}
		// sites on the same subject inside the same innermost case clause belong together; a type switch on
		// the subject itself groups its raw-type clauses
		key := f.Name() + "|" + subject
		if !strings.Contains(subject, "@switch") {
			for cur := parents[at]; cur != nil; cur = parents[cur] {
				if cc, ok := cur.(*ast.CaseClause); ok {
					key += "|case@" + itoa(int(cc.Pos()))
					break
				}
			}
		}
		g := groups[key]
		if g == nil {
			g = &group{f: f, subject: strings.Split(subject, "@switch")[0], pos: at.Pos(), folded: true}
			groups[key] = g
		}
		g.sites++
		g.expr, g.nm = g.expr || cov.e, g.nm || cov.n
		g.folded = g.folded && folded
		if conn == andC {
			g.and = true
		} else {
			g.or = true
		}
	}
	for _, f := range p.FuncsOf(pkgClause) {
		if f.Parent != nil || f.Obj == nil {
			continue
		}
		info := f.Pkg.TypesInfo
		for _, call := range callsIn(f) {
			if calleeName(info, call) != "strings.Contains" || len(call.Args) != 2 {
				continue
			}
			cid := identOf(call.Args[1])
			if cid == nil || (info.Uses[cid] != andC && info.Uses[cid] != orC) {
				continue
			}
			site(f, call, call.Args[0], info.Uses[cid], false, true)
		}
	}
	// decisions made through a helper: at every call of the helper, on the argument passed
	if len(helpers) > 0 {
		for _, f := range p.FuncsOf(pkgClause) {
			if f.Parent != nil || f.Obj == nil {
				continue
			}
			info := f.Pkg.TypesInfo
			for _, call := range callsIn(f) {
				fn, _ := typeutil.Callee(info, call).(*types.Func)
				for _, hu := range helpers[fn] {
					if hu.param < len(call.Args) {
						site(f, call, call.Args[hu.param], hu.conn, hu.folded, false)
					}
				}
			}
		}
	}
	var keys []string
	for k := range groups {
		keys = append(keys, k)
	}
	sort.Strings(keys)
	for _, k := range keys {
		g := groups[k]
		c.Touch(g.f)
		rs.Check(g.expr && g.nm, g.f.Name(), "raw unit types of "+g.subject, g.pos, "decides on Expr.SQL and NamedExpr.SQL alike", "the decision whether to parenthesise "+g.subject+" looks for AND/OR in its raw text only for "+rawKinds(g.expr, g.nm)+": the other raw form (named arguments vs ?) of the same unit is rendered without parentheses and neighbouring AND/OR/NOT bind to part of it")
		rs.Check(g.and && g.or, g.f.Name(), "connectives looked for in "+g.subject, g.pos, "both AND and OR", "the parenthesisation decision for "+g.subject+" looks for only one of AND/OR in the raw text: a unit containing the other connective is not grouped")
		rs.Check(g.folded, g.f.Name(), "case of the connectives in "+g.subject, g.pos, "looked for in an upper-cased copy of the text", "the parenthesisation decision for "+g.subject+" compares the raw text with the upper-case connectives without upper-casing it first: SQL keywords are case-insensitive, so `a = ? Or b = ?` is not grouped and a neighbouring AND (e.g. the soft-delete filter) binds to its last disjunct only")
	}

}
