package main

// C02 — chained conditions select exactly the rows of their logical combination (narrow).

import (
	"go/ast"
	"go/types"
	"sort"
	"strings"

	"golang.org/x/tools/go/ssa"
)

func init() {
	register("C02", checkC02,
		"Narrow structural clauses of C02: (merge) merging a clause that carries a list (Where.Exprs, GroupBy.Columns, GroupBy.Having, OrderBy.Columns, Returning.Columns) stores a list that depends on both the earlier clause's list and the new one (SSA contributors through append and copy), so no earlier or new unit is lost; (siblings) every function of package clause that decides parenthesisation by looking for AND/OR in raw SQL text reads the text of both raw unit types, clause.Expr and clause.NamedExpr (directly or through a helper); (empty) empty condition forms add no clause (shared with C09.empty). NOT decided: the selected row set, three-valued logic, and the substring test for AND/OR itself (it is blind to tabs/newlines - a value-level defect outside structural reach).")
}

// sliceContributors returns the origin paths that flow into slice value v through append and copy.
func sliceContributors(fn *ssa.Function, v ssa.Value, depth int, seen map[ssa.Value]bool) []string {
	if depth > 12 || seen[v] {
		return nil
	}
	seen[v] = true
	var out []string
	switch x := v.(type) {
	case *ssa.Call:
		if b, ok := x.Call.Value.(*ssa.Builtin); ok && b.Name() == "append" {
			for _, a := range x.Call.Args {
				out = append(out, sliceContributors(fn, a, depth+1, seen)...)
			}
			return out
		}
	case *ssa.Slice:
		return sliceContributors(fn, x.X, depth+1, seen)
	case *ssa.Phi:
		for _, e := range x.Edges {
			out = append(out, sliceContributors(fn, e, depth+1, seen)...)
		}
		return out
	case *ssa.MakeSlice:
		// everything copied into it
		forEachInstr(fn, func(owner *ssa.Function, in ssa.Instruction) {
			c, ok := in.(*ssa.Call)
			if !ok {
				return
			}
			if b, ok := c.Call.Value.(*ssa.Builtin); !ok || b.Name() != "copy" {
				return
			}
			dst := c.Call.Args[0]
			for {
				if sl, ok := dst.(*ssa.Slice); ok {
					dst = sl.X
					continue
				}
				break
			}
			if dst == ssa.Value(x) {
				out = append(out, sliceContributors(fn, c.Call.Args[1], depth+1, seen)...)
			}
		})
		return out
	case *ssa.UnOp:
		// load of a local slice variable: look through
		if al, ok := x.X.(*ssa.Alloc); ok {
			vals, _ := allocStores(al)
			if len(vals) > 0 && spilledParam(al) == nil {
				for _, sv := range vals {
					out = append(out, sliceContributors(fn, sv, depth+1, seen)...)
				}
				return out
			}
		}
	}
	return valuePaths(v)
}

func checkC02(c *Ctx) {
	p := c.P
	p.SSA()

	// ---- C02.merge ----
	rm := c.Rule("C02.merge", "MergeClause of list-carrying clauses keeps both the earlier and the new list", 5)
	clauseT := p.Named(pkgClause, "Clause")
	lists := map[string][]string{"Where": {"Exprs"}, "GroupBy": {"Columns", "Having"}, "OrderBy": {"Columns"}, "Returning": {"Columns"}}
	var tnames []string
	for n := range lists {
		tnames = append(tnames, n)
	}
	sort.Strings(tnames)
	for _, tn := range tnames {
		t := p.Named(pkgClause, tn)
		m := p.MethodOpt(t, "MergeClause")
		if m == nil {
			rm.Bad("clause."+tn, "MergeClause", t.Obj().Pos(), "clause type "+tn+" has no MergeClause")
			continue
		}
		fn := p.SSAFunc(m)
		if fn.Signature.Params().Len() != 1 || !p.isNamedPtr(fn.Signature.Params().At(0).Type(), clauseT) {
			continue
		}
		recv := fn.Params[0].Name()
		cl := fn.Params[1].Name()
		c.TouchName(ssaFuncName(fn))
		for _, lf := range lists[tn] {
			fld := p.Field(t, lf)
			best := map[string]bool{}
			found := false
			forEachInstr(fn, func(owner *ssa.Function, in ssa.Instruction) {
				st, ok := in.(*ssa.Store)
				if !ok {
					return
				}
				fa, ok := st.Addr.(*ssa.FieldAddr)
				if !ok || fieldVar(fa.X.Type(), fa.Field) != fld {
					return
				}
				cs := sliceContributors(fn, st.Val, 0, map[ssa.Value]bool{})
				hasOld, hasNew := false, false
				for _, pth := range cs {
					base := strings.TrimSuffix(pth, "+append")
					if base == cl+".Expression."+lf {
						hasOld = true
					}
					if base == recv+"."+lf {
						hasNew = true
					}
					best[pth] = true
				}
				if hasOld && hasNew {
					found = true
				}
			})
			var seen []string
			for k := range best {
				seen = append(seen, k)
			}
			sort.Strings(seen)
			rm.Check(found, ssaFuncName(fn), "merged "+lf+" keeps earlier and new units", fn.Pos(), "contributors include "+cl+".Expression."+lf+" and "+recv+"."+lf, "merging a second "+tn+" clause does not combine the earlier "+lf+" with the new ones: an earlier (or the new) condition/column is silently dropped", "contributors: "+strings.Join(seen, ", "))
		}
	}

	// ---- C02.siblings ----
	rs := c.Rule("C02.siblings", "every parenthesisation decision in package clause looks at the SQL text of both raw unit types (Expr and NamedExpr)", 2)
	exprSQL := p.Field(p.Named(pkgClause, "Expr"), "SQL")
	nexprSQL := p.Field(p.Named(pkgClause, "NamedExpr"), "SQL")
	andC := p.Lookup(pkgClause, "AndWithSpace")
	orC := p.Lookup(pkgClause, "OrWithSpace")
	readsSQL := func(fn *ssa.Function) (bool, bool) {
		e, n := false, false
		forEachInstr(fn, func(owner *ssa.Function, in ssa.Instruction) {
			switch x := in.(type) {
			case *ssa.Field:
				fv := fieldVar(x.X.Type(), x.Field)
				e = e || fv == exprSQL
				n = n || fv == nexprSQL
			case *ssa.FieldAddr:
				fv := fieldVar(x.X.Type(), x.Field)
				e = e || fv == exprSQL
				n = n || fv == nexprSQL
			}
		})
		return e, n
	}
	for _, f := range p.FuncsOf(pkgClause) {
		if f.Parent != nil {
			continue
		}
		info := f.Pkg.TypesInfo
		decides := false
		for _, call := range callsIn(f) {
			if calleeName(info, call) == "strings.Contains" && len(call.Args) == 2 {
				if id := identOf(call.Args[1]); id != nil {
					if o := info.Uses[id]; o == andC || o == orC {
						decides = true
					}
				}
			}
		}
		if !decides || f.Obj == nil {
			continue
		}
		fn := p.SSAFunc(f.Obj)
		c.Touch(f)
		e, n := readsSQL(fn)
		// static callees one level down (helpers like rawExprSQL)
		forEachInstr(fn, func(owner *ssa.Function, in ssa.Instruction) {
			if ci, ok := in.(ssa.CallInstruction); ok {
				if sc := ci.Common().StaticCallee(); sc != nil && sc.Pkg != nil && sc.Pkg.Pkg.Path() == pkgClause {
					e2, n2 := readsSQL(sc)
					e, n = e || e2, n || n2
				}
			}
		})
		rs.Check(e && n, f.Name(), "raw-SQL unit types", f.Body.Pos(), "decides on Expr.SQL and NamedExpr.SQL alike", "this function decides whether to parenthesise a raw condition by looking for AND/OR in its text, but only for "+rawKinds(e, n)+": the other raw form (with named arguments / with ?) is rendered without parentheses and NOT/AND bind to its first operand only")
	}

	// ---- C02.not-members ----
	rnm := c.Rule("C02.not-members", "NotConditions.Build decides per member: every NegationExpressionBuilder test is applied to the range variable of a loop over all members", 2)
	{
		nb := p.MethodDecl(pkgClause, "NotConditions", "Build")
		c.Touch(nb)
		info := nb.Pkg.TypesInfo
		negI := p.Named(pkgClause, "NegationExpressionBuilder")
		recv := recvName(nb)
		parents := parentMap(nb.Body)
		n := 0
		ast.Inspect(nb.Body, func(x ast.Node) bool {
			ta, ok := x.(*ast.TypeAssertExpr)
			if !ok || ta.Type == nil {
				return true
			}
			if tv, ok := info.Types[ta.Type]; !ok || !types.Identical(tv.Type, negI) {
				return true
			}
			n++
			okm := false
			if id, ok := unparen(ta.X).(*ast.Ident); ok {
				for cur := parents[ta]; cur != nil; cur = parents[cur] {
					if rs, ok := cur.(*ast.RangeStmt); ok {
						if v, ok := rs.Value.(*ast.Ident); ok && info.Defs[v] == info.Uses[id] && strings.HasPrefix(canon(info, rs.X), recv+".") {
							okm = true
						}
					}
				}
			}
			rnm.Check(okm, nb.Name(), "negation-builder test on each member", ta.Pos(), "applied to the loop variable over "+recv+".Exprs", "NOT decides how to negate a group from a single, fixed member instead of looking at every member: a mixed group (raw condition + map/struct/Eq) is negated as a whole instead of member by member (or the other way round)")
			return true
		})
		rnm.Check(n >= 2, nb.Name(), "detects and dispatches negation builders", nb.Body.Pos(), "detection and rendering both test members", "NotConditions.Build no longer tests its members for NegationExpressionBuilder")
	}

	// ---- C02.empty ----
	checkEmptyForms(c, c.Rule("C02.empty", "empty condition forms add no clause (same rule as C09.empty)", 14))
}

func rawKinds(e, n bool) string {
	switch {
	case e && !n:
		return "clause.Expr"
	case n && !e:
		return "clause.NamedExpr"
	}
	return "neither raw type"
}

func identOf(e ast.Expr) *ast.Ident {
	id, _ := unparen(e).(*ast.Ident)
	return id
}

var _ = types.Universe
