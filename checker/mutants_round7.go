package main

func init() {
	addMutants(
		// C02.siblings / C08.raw-grouping: case folding, helper sites
		Mutant{Name: "c02-named-expr-arm-compares-raw-case", Property: "C02", Rule: "C02.siblings", Edits: []Edit{{"clause/where.go",
			"\t\t\tcase NamedExpr:\n\t\t\t\tsql := strings.ToUpper(v.SQL)\n", "\t\t\tcase NamedExpr:\n\t\t\t\tsql := v.SQL\n"}}},
		Mutant{Name: "c08-expr-arm-compares-raw-case", Property: "C08", Rule: "C08.raw-grouping", Edits: []Edit{{"clause/where.go",
			"\t\t\tcase Expr:\n\t\t\t\tsql := strings.ToUpper(v.SQL)\n", "\t\t\tcase Expr:\n\t\t\t\tsql := v.SQL\n"}}},
		Mutant{Name: "n84-paren-decision-through-upper-casing-helper", Property: "*", Rule: "NEUTRAL", Edits: []Edit{
			{"clause/where.go", "\t\t\tcase Expr:\n\t\t\t\tsql := strings.ToUpper(v.SQL)\n\t\t\t\twrapInParentheses = strings.Contains(sql, AndWithSpace) || strings.Contains(sql, OrWithSpace)\n\t\t\tcase NamedExpr:\n\t\t\t\tsql := strings.ToUpper(v.SQL)\n\t\t\t\twrapInParentheses = strings.Contains(sql, AndWithSpace) || strings.Contains(sql, OrWithSpace)\n",
				"\t\t\tcase Expr:\n\t\t\t\twrapInParentheses = combinesConditions(v.SQL)\n\t\t\tcase NamedExpr:\n\t\t\t\twrapInParentheses = combinesConditions(v.SQL)\n"},
			{"clause/where.go", "// MergeClause merge where clauses\n", "func combinesConditions(raw string) bool {\n\tsql := strings.ToUpper(raw)\n\treturn strings.Contains(sql, AndWithSpace) || strings.Contains(sql, OrWithSpace)\n}\n\n// MergeClause merge where clauses\n"}}},
		// C09.empty: IN over the primary column
		Mutant{Name: "c09-bare-slice-in-without-length-test", Property: "C09", Rule: "C09.empty", Edits: []Edit{{"statement.go",
			"\t\t\t\t\t\tif len(values) > 0 {\n\t\t\t\t\t\t\tconds = append(conds, clause.IN{Column: clause.PrimaryColumn, Values: values})\n\t\t\t\t\t\t\treturn []clause.Expression{clause.And(conds...)}\n\t\t\t\t\t\t}\n\t\t\t\t\t\treturn nil",
			"\t\t\t\t\t\tif reflectValue.IsValid() {\n\t\t\t\t\t\t\tconds = append(conds, clause.IN{Column: clause.PrimaryColumn, Values: values})\n\t\t\t\t\t\t\treturn []clause.Expression{clause.And(conds...)}\n\t\t\t\t\t\t}\n\t\t\t\t\t\treturn nil"}}},
		Mutant{Name: "n85-bare-slice-length-from-value-len", Property: "*", Rule: "NEUTRAL", Edits: []Edit{{"statement.go",
			"\t\t\t\t\t\tif len(values) > 0 {\n\t\t\t\t\t\t\tconds = append(conds, clause.IN{Column: clause.PrimaryColumn, Values: values})",
			"\t\t\t\t\t\tif len(values) != 0 {\n\t\t\t\t\t\t\tconds = append(conds, clause.IN{Column: clause.PrimaryColumn, Values: values})"}}},
		// C10.emit: discarded lookup value
		Mutant{Name: "c10-map-create-keeps-present-columns", Property: "C10", Rule: "C10.emit", Edits: []Edit{{"callbacks/helper.go",
			"\t\tif v, ok := selectColumns[k]; (ok && v) || (!ok && !restricted) {\n\t\t\tvalues.Columns = append(values.Columns, clause.Column{Name: k})",
			"\t\tif _, ok := selectColumns[k]; ok || !restricted {\n\t\t\tvalues.Columns = append(values.Columns, clause.Column{Name: k})"}}},
		// C11.join-refs
		Mutant{Name: "c11-join-skips-constant-reference", Property: "C11", Rule: "C11.join-refs", Edits: []Edit{{"callbacks/query.go",
			"\t\t\t\t\t\t\t\t\t} else {\n\t\t\t\t\t\t\t\t\t\texprs[idx] = clause.Eq{\n\t\t\t\t\t\t\t\t\t\t\tColumn: clause.Column{Table: tableAliasName, Name: ref.ForeignKey.DBName},\n\t\t\t\t\t\t\t\t\t\t\tValue:  ref.PrimaryValue,\n\t\t\t\t\t\t\t\t\t\t}\n\t\t\t\t\t\t\t\t\t}",
			"\t\t\t\t\t\t\t\t\t} else if join.On == nil {\n\t\t\t\t\t\t\t\t\t\texprs[idx] = clause.Eq{\n\t\t\t\t\t\t\t\t\t\t\tColumn: clause.Column{Table: tableAliasName, Name: ref.ForeignKey.DBName},\n\t\t\t\t\t\t\t\t\t\t\tValue:  ref.PrimaryValue,\n\t\t\t\t\t\t\t\t\t\t}\n\t\t\t\t\t\t\t\t\t}"}}},
		Mutant{Name: "n86-join-on-list-built-by-append", Property: "*", Rule: "NEUTRAL", Edits: []Edit{
			{"callbacks/query.go", "\t\t\t\t\t\t\texprs := make([]clause.Expression, len(relation.References))\n\t\t\t\t\t\t\tfor idx, ref := range relation.References {", "\t\t\t\t\t\t\texprs := make([]clause.Expression, len(relation.References))\n\t\t\t\t\t\t\tfor idx := range relation.References {\n\t\t\t\t\t\t\t\tref := relation.References[idx]"}}},
		// C12.append-adds
		Mutant{Name: "c12-append-replaces-unconditionally", Property: "C12", Rule: "C12.append-adds", Edits: []Edit{{"association.go",
			"\t\t\tif len(values) > 0 {\n\t\t\t\tassociation.Error = association.Replace(values...)\n\t\t\t}\n\t\tdefault:", "\t\t\tassociation.Error = association.Replace(values...)\n\t\tdefault:"}}},
		Mutant{Name: "n87-append-early-return-on-empty", Property: "*", Rule: "NEUTRAL", Edits: []Edit{{"association.go",
			"\t\t\tif len(values) > 0 {\n\t\t\t\tassociation.Error = association.Replace(values...)\n\t\t\t}\n\t\tdefault:", "\t\t\tif len(values) == 0 {\n\t\t\t\treturn association.Error\n\t\t\t}\n\t\t\tassociation.Error = association.Replace(values...)\n\t\tdefault:"}}},
		// C13.order: association phases
		Mutant{Name: "c13-create-associations-before-before-hooks", Property: "C13", Rule: "C13.order", Edits: []Edit{{"callbacks/callbacks.go",
			"\tcreateCallback.Register(\"gorm:before_create\", BeforeCreate)\n\tcreateCallback.Register(\"gorm:save_before_associations\", SaveBeforeAssociations(true))", "\tcreateCallback.Register(\"gorm:save_before_associations\", SaveBeforeAssociations(true))\n\tcreateCallback.Register(\"gorm:before_create\", BeforeCreate)"}}},
		Mutant{Name: "c13-delete-associations-before-before-delete", Property: "C13", Rule: "C13.order", Edits: []Edit{{"callbacks/callbacks.go",
			"\tdeleteCallback.Register(\"gorm:before_delete\", BeforeDelete)\n\tdeleteCallback.Register(\"gorm:delete_before_associations\", DeleteBeforeAssociations)", "\tdeleteCallback.Register(\"gorm:delete_before_associations\", DeleteBeforeAssociations)\n\tdeleteCallback.Register(\"gorm:before_delete\", BeforeDelete)"}}},
		Mutant{Name: "c13-update-after-associations-after-after-hooks", Property: "C13", Rule: "C13.order", Edits: []Edit{{"callbacks/callbacks.go",
			"\tupdateCallback.Register(\"gorm:save_after_associations\", SaveAfterAssociations(false))\n\tupdateCallback.Register(\"gorm:after_update\", AfterUpdate)", "\tupdateCallback.Register(\"gorm:after_update\", AfterUpdate)\n\tupdateCallback.Register(\"gorm:save_after_associations\", SaveAfterAssociations(false))"}}},
	)
}

func init() {
	addMutants(
		// C15.pk-placeholder
		Mutant{Name: "c15-batch-cursor-read-from-first-primary-field", Property: "C15", Rule: "C15.pk-placeholder", Edits: []Edit{{"finisher_api.go",
			"\t\tprimaryValue, zero := result.Statement.Schema.PrioritizedPrimaryField.ValueOf(tx.Statement.Context, resultsValue.Index(resultsValue.Len()-1))", "\t\tprimaryValue, zero := result.Statement.Schema.PrimaryFields[0].ValueOf(tx.Statement.Context, resultsValue.Index(resultsValue.Len()-1))"}}},
		Mutant{Name: "n88-placeholder-field-in-a-local", Property: "*", Rule: "NEUTRAL", Edits: []Edit{{"statement.go",
			"\t\t\t} else if stmt.Schema.PrioritizedPrimaryField != nil {\n\t\t\t\twrite(v.Raw, stmt.Schema.PrioritizedPrimaryField.DBName)", "\t\t\t} else if pk := stmt.Schema.PrioritizedPrimaryField; pk != nil {\n\t\t\t\twrite(v.Raw, pk.DBName)"}}},
		// C16.key-all
		Mutant{Name: "c16-update-key-from-first-primary-field", Property: "C16", Rule: "C16.key-all", Edits: []Edit{{"callbacks/update.go",
			"\t\tcase reflect.Struct:\n\t\t\tfor _, field := range stmt.Schema.PrimaryFields {\n\t\t\t\tif value, isZero := field.ValueOf(stmt.Context, stmt.ReflectValue); !isZero {", "\t\tcase reflect.Struct:\n\t\t\tfor _, field := range stmt.Schema.PrimaryFields[:1] {\n\t\t\t\tif value, isZero := field.ValueOf(stmt.Context, stmt.ReflectValue); !isZero {"}}},
		Mutant{Name: "n89-update-key-loop-by-index", Property: "*", Rule: "NEUTRAL", Edits: []Edit{{"callbacks/update.go",
			"\t\tcase reflect.Struct:\n\t\t\tfor _, field := range stmt.Schema.PrimaryFields {\n\t\t\t\tif value, isZero := field.ValueOf(stmt.Context, stmt.ReflectValue); !isZero {", "\t\tcase reflect.Struct:\n\t\t\tprimaryFields := stmt.Schema.PrimaryFields\n\t\t\tfor _, field := range primaryFields {\n\t\t\t\tif value, isZero := field.ValueOf(stmt.Context, stmt.ReflectValue); !isZero {"}}},
		// C17.register
		Mutant{Name: "c17-remove-returns-early-for-unknown-name", Property: "C17", Rule: "C17.register", Edits: []Edit{{"callbacks.go",
			"\tc.name = name\n\tc.remove = true\n", "\tc.name = name\n\tc.remove = true\n\tif len(c.processor.callbacks) == 0 {\n\t\treturn c.processor.compile()\n\t}\n"}}},
		Mutant{Name: "n90-replace-append-through-a-local-list", Property: "*", Rule: "NEUTRAL", Edits: []Edit{{"callbacks.go",
			"\t\t}\n\t}\n\tc.processor.callbacks = append(c.processor.callbacks, c)\n\treturn c.processor.compile()", "\t\t}\n\t}\n\tproc := c.processor\n\tproc.callbacks = append(proc.callbacks, c)\n\treturn proc.compile()"}}},
	)
}

// further behaviour-preserving refactors of rule-dense functions
func init() {
	addMutants(
		Mutant{Name: "n91-commit-or-rollback-early-returns", Property: "*", Rule: "NEUTRAL", Edits: []Edit{{"callbacks/transaction.go",
			"\tif !db.Config.SkipDefaultTransaction {\n\t\tif _, ok := db.InstanceGet(\"gorm:started_transaction\"); ok {\n\t\t\tif db.Error != nil {\n\t\t\t\tdb.Rollback()\n\t\t\t} else {\n\t\t\t\tdb.Commit()\n\t\t\t}\n\n\t\t\tdb.Statement.ConnPool = db.ConnPool\n\t\t}\n\t}",
			"\tif db.Config.SkipDefaultTransaction {\n\t\treturn\n\t}\n\tif _, ok := db.InstanceGet(\"gorm:started_transaction\"); !ok {\n\t\treturn\n\t}\n\tif db.Error != nil {\n\t\tdb.Rollback()\n\t} else {\n\t\tdb.Commit()\n\t}\n\n\tdb.Statement.ConnPool = db.ConnPool"}}},
		Mutant{Name: "n92-begin-transaction-switch-on-error", Property: "*", Rule: "NEUTRAL", Edits: []Edit{{"callbacks/transaction.go",
			"\t\tif tx := db.Begin(); tx.Error == nil {\n\t\t\tdb.Statement.ConnPool = tx.Statement.ConnPool\n\t\t\tdb.InstanceSet(\"gorm:started_transaction\", true)\n\t\t} else if tx.Error == gorm.ErrInvalidTransaction {\n\t\t\ttx.Error = nil\n\t\t} else {\n\t\t\tdb.Error = tx.Error\n\t\t}",
			"\t\ttx := db.Begin()\n\t\tswitch {\n\t\tcase tx.Error == nil:\n\t\t\tdb.Statement.ConnPool = tx.Statement.ConnPool\n\t\t\tdb.InstanceSet(\"gorm:started_transaction\", true)\n\t\tcase tx.Error == gorm.ErrInvalidTransaction:\n\t\t\ttx.Error = nil\n\t\tdefault:\n\t\t\tdb.Error = tx.Error\n\t\t}"}}},
		Mutant{Name: "n93-missing-where-guard-flattened", Property: "*", Rule: "NEUTRAL", Edits: []Edit{{"callbacks/helper.go",
			"\t\twhere, withCondition := db.Statement.Clauses[\"WHERE\"]\n\t\tif withCondition {\n\t\t\tif _, withSoftDelete := db.Statement.Clauses[\"soft_delete_enabled\"]; withSoftDelete {\n\t\t\t\twhereClause, _ := where.Expression.(clause.Where)\n\t\t\t\twithCondition = len(whereClause.Exprs) > 1\n\t\t\t}\n\t\t}",
			"\t\twhere, withCondition := db.Statement.Clauses[\"WHERE\"]\n\t\t_, withSoftDelete := db.Statement.Clauses[\"soft_delete_enabled\"]\n\t\tif withCondition && withSoftDelete {\n\t\t\twhereClause, _ := where.Expression.(clause.Where)\n\t\t\twithCondition = len(whereClause.Exprs) > 1\n\t\t}"}}},
		Mutant{Name: "n94-commit-through-a-local-committer-check", Property: "*", Rule: "NEUTRAL", Edits: []Edit{{"finisher_api.go",
			"\tif committer, ok := db.Statement.ConnPool.(TxCommitter); ok && committer != nil && !reflect.ValueOf(committer).IsNil() {\n\t\tdb.AddError(committer.Commit())\n\t} else {\n\t\tdb.AddError(ErrInvalidTransaction)\n\t}\n\treturn db",
			"\tcommitter, ok := db.Statement.ConnPool.(TxCommitter)\n\tif !ok || committer == nil || reflect.ValueOf(committer).IsNil() {\n\t\tdb.AddError(ErrInvalidTransaction)\n\t\treturn db\n\t}\n\tdb.AddError(committer.Commit())\n\treturn db"}}},
		Mutant{Name: "n95-execute-scopes-loop-by-index", Property: "*", Rule: "NEUTRAL", Edits: []Edit{{"chainable_api.go",
			"\tfor _, scope := range scopes {\n\t\tdb = scope(db)\n\t}\n\treturn db", "\tfor i := 0; i < len(scopes); i++ {\n\t\tdb = scopes[i](db)\n\t}\n\treturn db"}}},
		Mutant{Name: "n96-withcontext-session-literal-in-a-local", Property: "*", Rule: "NEUTRAL", Edits: []Edit{{"gorm.go",
			"\treturn db.Session(&Session{Context: ctx})", "\tcfg := Session{Context: ctx}\n\treturn db.Session(&cfg)"}}},
		Mutant{Name: "n97-order-by-merge-copy-with-append-nil", Property: "*", Rule: "NEUTRAL", Edits: []Edit{{"clause/order_by.go",
			"\t\tcopiedColumns := make([]OrderByColumn, len(v.Columns))\n\t\tcopy(copiedColumns, v.Columns)", "\t\tcopiedColumns := append([]OrderByColumn(nil), v.Columns...)"}}},
		Mutant{Name: "n98-append-assoc-switch-to-if", Property: "*", Rule: "NEUTRAL", Edits: []Edit{{"association.go",
			"\t\tswitch association.Relationship.Type {\n\t\tcase schema.HasOne, schema.BelongsTo:\n\t\t\tif len(values) > 0 {\n\t\t\t\tassociation.Error = association.Replace(values...)\n\t\t\t}\n\t\tdefault:\n\t\t\tassociation.saveAssociation( /*clear*/ false, values...)\n\t\t}",
			"\t\tif t := association.Relationship.Type; t == schema.HasOne || t == schema.BelongsTo {\n\t\t\tif len(values) > 0 {\n\t\t\t\tassociation.Error = association.Replace(values...)\n\t\t\t}\n\t\t} else {\n\t\t\tassociation.saveAssociation( /*clear*/ false, values...)\n\t\t}"}}},
	)
}
