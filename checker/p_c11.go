package main

// C11 (narrow): structural clauses of "eager loading attaches to each record exactly its own associated
// rows".  Attachment itself is decided at run time by comparing key strings (not decided here, see
// DESIGN.md section 5); what IS visible in the shape of callbacks.preload and schema.GetIdentityFieldValuesMap:
//
//   key-pairs   for every relation reference the two sides of the comparison are the two ends of that
//               reference: in each branch of the reference loops the column-name list and the field list of
//               the child side take the same end (X.DBName / X) and the parent side takes the other end
//   key-func    parents are filed and children are looked up with the same key function: every index
//               into an identity map (map[string][]reflect.Value) is a call of one and the same function
//   orphan      a loaded child whose key matches no parent is an error, never attached elsewhere or dropped
//               silently
//   reset       the association field of every parent is reset before the loaded rows are attached
//               (struct and slice/array destinations)

import (
	"go/ast"
	"go/types"
	"sort"
	"strings"

	"golang.org/x/tools/go/types/typeutil"
)

func init() {
	register("C11", checkC11,
		"Narrow structural clauses of C11 decided on the current source: (key-pairs) in every branch of the loops over Relationship.References in callbacks.preload the child-side column-name list and field list are extended with the same end of the reference (X.DBName and X), the parent-side list with the other end, and only the ends PrimaryKey / ForeignKey of the loop's own reference are used; (key-func) every index into an identity map (map[string][]reflect.Value) in schema.GetIdentityFieldValuesMap and callbacks.preload is keyed by a call of one and the same key function; (orphan) the look-up of a loaded row's parents returns an error when no parent matches; (reset) preload resets the association field of every parent for struct and for slice/array destinations before attaching. NOT decided: that the key function is injective for all key values (it is not: composite string keys containing the separator collide), which rows a join query returns, nested join scanning, conditions and scopes of the child query beyond what C08/C18 decide.")
}

func checkC11(c *Ctx) {
	p := c.P
	pre := p.FuncDecl(pkgCallbacks, "preload")
	c.Touch(pre)
	info := pre.Pkg.TypesInfo
	refT := p.Named(pkgSchema, "Reference")
	pkF, fkF := p.Field(refT, "PrimaryKey"), p.Field(refT, "ForeignKey")
	fieldT := p.Named(pkgSchema, "Field")
	dbNameF := p.Field(fieldT, "DBName")

	// ---- key-pairs ----
	rk := c.Rule("C11.key-pairs", "reference loops of preload: name list and field list take the same end of the reference, the other side the other end", 4)
	type app struct {
		list string // appended list variable
		end  string // "PrimaryKey" / "ForeignKey" / "?"
		name bool   // X.DBName (a column name) rather than X (a field)
		pos  ast.Node
	}
	endOf := func(e ast.Expr, ref types.Object) (string, bool, bool) {
		e = unparen(e)
		name := false
		if sel, ok := e.(*ast.SelectorExpr); ok && fieldSel(info, sel, dbNameF) {
			name = true
			e = unparen(sel.X)
		}
		sel, ok := e.(*ast.SelectorExpr)
		if !ok {
			return "?", name, false
		}
		root, _ := unparen(sel.X).(*ast.Ident)
		if root == nil || info.Uses[root] != ref {
			return "?", name, false
		}
		switch {
		case fieldSel(info, sel, pkF):
			return "PrimaryKey", name, true
		case fieldSel(info, sel, fkF):
			return "ForeignKey", name, true
		}
		return "?", name, false
	}
	// which column-name list goes with which field list: the names are used (through ToQueryValues) in the
	// query that fills a result variable R, the fields extract the key from the rows of the same R
	dbT := p.Named(pkgGorm, "DB")
	findM := p.Method(dbT, "Find")
	tqv := p.FuncDecl(pkgSchema, "ToQueryValues").Obj
	resultOfNames := map[string]types.Object{} // names list -> R
	resultOfFields := map[string]types.Object{}
	{
		var finds []*ast.CallExpr
		for _, call := range callsIn(pre) {
			if fn, _ := typeutil.Callee(info, call).(*types.Func); fn == findM && len(call.Args) >= 1 {
				finds = append(finds, call)
			}
		}
		for _, call := range callsIn(pre) {
			if fn, _ := typeutil.Callee(info, call).(*types.Func); fn != tqv || len(call.Args) != 3 {
				continue
			}
			nid, _ := unparen(call.Args[1]).(*ast.Ident)
			if nid == nil {
				continue
			}
			for _, fc := range finds {
				if fc.Pos() > call.Pos() {
					if root := rootIdentOf(fc.Args[0]); root != nil {
						resultOfNames[nid.Name] = info.Uses[root]
					} else if ce, ok := unparen(fc.Args[0]).(*ast.CallExpr); ok {
						if r2 := rootIdentOfCall(ce); r2 != nil {
							resultOfNames[nid.Name] = info.Uses[r2]
						}
					}
					break
				}
			}
		}
		ast.Inspect(pre.Body, func(n ast.Node) bool {
			rg, ok := n.(*ast.RangeStmt)
			if !ok {
				return true
			}
			fid, _ := unparen(rg.X).(*ast.Ident)
			fv, _ := rg.Value.(*ast.Ident)
			if fid == nil || fv == nil {
				return true
			}
			ast.Inspect(rg.Body, func(x ast.Node) bool {
				ce, ok := x.(*ast.CallExpr)
				if !ok || len(ce.Args) != 2 {
					return true
				}
				sel, ok := ce.Fun.(*ast.SelectorExpr)
				if !ok || sel.Sel.Name != "ValueOf" {
					return true
				}
				if rid, ok := unparen(sel.X).(*ast.Ident); !ok || info.Uses[rid] != info.Defs[fv] {
					return true
				}
				// the row: a local defined as R.Index(i)
				row := unparen(ce.Args[1])
				if id, ok := row.(*ast.Ident); ok {
					if ds := localDefs(pre, id.Name, id.Pos()); len(ds) == 1 && ds[0].rhs != nil {
						row = unparen(ds[0].rhs)
					}
				}
				if rc, ok := row.(*ast.CallExpr); ok {
					if r2 := rootIdentOfCall(rc); r2 != nil {
						resultOfFields[fid.Name] = info.Uses[r2]
					}
				}
				return true
			})
			return true
		})
	}
	partner := map[string]map[string]bool{} // names list -> field lists reading the same rows
	for nl, r1 := range resultOfNames {
		for fl, r2 := range resultOfFields {
			if r1 != nil && r1 == r2 {
				if partner[nl] == nil {
					partner[nl] = map[string]bool{}
				}
				partner[nl][fl] = true
			}
		}
	}
	nBranches := 0
	ast.Inspect(pre.Body, func(n ast.Node) bool {
		rs, ok := n.(*ast.RangeStmt)
		if !ok || !strings.HasSuffix(canon(info, rs.X), ".References") {
			return true
		}
		refID, _ := rs.Value.(*ast.Ident)
		if refID == nil {
			return true
		}
		ref := info.Defs[refID]
		// the branches: blocks of the if / else-if / else chain directly in the loop body (or the body itself)
		var branches []*ast.BlockStmt
		var collect func(st ast.Stmt)
		collect = func(st ast.Stmt) {
			switch x := st.(type) {
			case *ast.IfStmt:
				branches = append(branches, x.Body)
				if x.Else != nil {
					collect(x.Else)
				}
			case *ast.BlockStmt:
				branches = append(branches, x)
			}
		}
		chain := false
		for _, st := range rs.Body.List {
			if ifs, ok := st.(*ast.IfStmt); ok {
				collect(ifs)
				chain = true
			}
		}
		if !chain {
			branches = append(branches, rs.Body)
		}
		for _, blk := range branches {
			var apps []app
			for _, st := range blk.List {
				as, ok := st.(*ast.AssignStmt)
				if !ok || len(as.Lhs) != 1 || len(as.Rhs) != 1 {
					continue
				}
				ce, ok := unparen(as.Rhs[0]).(*ast.CallExpr)
				if !ok || len(ce.Args) != 2 {
					continue
				}
				if id, ok := ce.Fun.(*ast.Ident); !ok || id.Name != "append" {
					continue
				}
				lid, ok := as.Lhs[0].(*ast.Ident)
				if !ok || canon(info, ce.Args[0]) != lid.Name {
					continue
				}
				end, name, okE := endOf(ce.Args[1], ref)
				if !okE {
					end = "?"
				}
				apps = append(apps, app{lid.Name, end, name, as})
			}
			if len(apps) == 0 {
				continue // e.g. the polymorphic-value arm adds a condition, no key lists
			}
			nBranches++
			var problems []string
			ends := map[string]bool{}
			var nameEnds, fieldEnds []string
			for _, a := range apps {
				if a.end == "?" {
					problems = append(problems, a.list+" is extended with something that is not an end of this reference")
					continue
				}
				ends[a.end] = true
				if a.name {
					nameEnds = append(nameEnds, a.end)
				}
			}
			// each column-name list has a field list extended with the same end in this branch
			for _, a := range apps {
				if !a.name || a.end == "?" {
					continue
				}
				paired := false
				for _, b := range apps {
					if !b.name && b.end == a.end && (len(partner[a.list]) == 0 || partner[a.list][b.list]) {
						paired = true
						fieldEnds = append(fieldEnds, b.end)
					}
				}
				if !paired {
					problems = append(problems, "the column names in "+a.list+" come from "+a.end+" but no field list of this branch takes "+a.end+": the child rows are queried by one column and matched by another")
				}
			}
			if len(apps) >= 2 && len(ends) < 2 && len(problems) == 0 {
				problems = append(problems, "both sides of the comparison take the same end ("+keyList(ends)+") of the reference: parents are matched with themselves")
			}
			sort.Strings(problems)
			rk.Check(len(problems) == 0, pre.Name(), "reference branch", blk.Pos(), "name list and field list share one end, the other side takes the other end", "the key lists built for eager loading pair the wrong ends of a reference: children are attached to parents whose key they do not reference: "+strings.Join(problems, "; "))
		}
		return true
	})
	if nBranches < 4 {
		rk.Bad(pre.Name(), "reference loops", pre.Body.Pos(), "fewer than four key-building branches found in preload (join-table own/other side, plain own/other side)")
	}

	checkC11KeyNonZero(c)
	checkC11Descent(c)
	checkC11JoinRefs(c)
	checkC11AllParents(c)
	checkC11JoinNull(c)
	checkC11KeyVerbatim(c)
	checkC11UnscopedNested(c)

	// ---- key-func ----
	rf := c.Rule("C11.key-func", "identity maps are written and read through one key function", 4)
	gif := p.FuncDecl(pkgSchema, "GetIdentityFieldValuesMap")
	c.Touch(gif)
	keyFuncs := map[string]bool{}
	nIdx := 0
	for _, f := range []*FuncSrc{gif, pre} {
		finfo := f.Pkg.TypesInfo
		ast.Inspect(f.Body, func(n ast.Node) bool {
			ix, ok := n.(*ast.IndexExpr)
			if !ok {
				return true
			}
			tv, ok := finfo.Types[ix.X]
			if !ok {
				return true
			}
			mt, ok := tv.Type.Underlying().(*types.Map)
			if !ok || !types.Identical(mt.Key(), types.Typ[types.String]) {
				return true
			}
			if sl, ok := mt.Elem().Underlying().(*types.Slice); !ok || sl.Elem().String() != "reflect.Value" {
				return true
			}
			nIdx++
			// the key: a call, or a single-definition local defined by a call
			key := unparen(ix.Index)
			if id, ok := key.(*ast.Ident); ok {
				if ds := localDefs(f, id.Name, id.Pos()); len(ds) == 1 && ds[0].rhs != nil {
					key = unparen(ds[0].rhs)
				}
			}
			name := "?" + exprShort(ix.Index)
			if ce, ok := key.(*ast.CallExpr); ok {
				if fn, _ := typeutil.Callee(finfo, ce).(*types.Func); fn != nil {
					name = fn.FullName()
				}
			}
			keyFuncs[name] = true
			rf.Check(!strings.HasPrefix(name, "?"), f.Name(), "identity-map key", ix.Pos(), "key computed by the key function", "an identity map is indexed with "+exprShort(ix.Index)+", which is not a call of the key function: parents and children are filed under different encodings of their keys")
			return true
		})
	}
	rf.Check(len(keyFuncs) == 1, pre.Name(), "one key function", pre.Body.Pos(), keyList(keyFuncs), "identity maps are keyed through different functions ("+keyList(keyFuncs)+"): the key a parent is filed under and the key its children are looked up with are encoded differently")
	if nIdx < 4 {
		rf.Bad(pre.Name(), "identity-map accesses", pre.Body.Pos(), "fewer than four identity-map accesses found")
	}

	// ---- orphan ----
	ro := c.Rule("C11.orphan", "a loaded row without a matching parent is an error", 1)
	nLook := 0
	ast.Inspect(pre.Body, func(n ast.Node) bool {
		as, ok := n.(*ast.AssignStmt)
		if !ok || len(as.Lhs) != 2 || len(as.Rhs) != 1 {
			return true
		}
		ix, ok := unparen(as.Rhs[0]).(*ast.IndexExpr)
		if !ok || canon(info, ix.X) != "identityMap" {
			return true
		}
		okID, _ := as.Lhs[1].(*ast.Ident)
		if okID == nil {
			return true
		}
		nLook++
		// an if !ok { return <non-nil> } follows in the same block
		errs := false
		ast.Inspect(pre.Body, func(m ast.Node) bool {
			ifs, isIf := m.(*ast.IfStmt)
			if !isIf || ifs.Pos() < as.Pos() {
				return true
			}
			u, isU := unparen(ifs.Cond).(*ast.UnaryExpr)
			if !isU {
				return true
			}
			if id, ok := unparen(u.X).(*ast.Ident); !ok || info.Uses[id] != info.Defs[okID] {
				return true
			}
			for _, st := range ifs.Body.List {
				if rs, ok := st.(*ast.ReturnStmt); ok && len(rs.Results) == 1 && !isNilIdent(info, rs.Results[0]) {
					errs = true
				}
			}
			return true
		})
		ro.Check(errs, pre.Name(), "unmatched child", as.Pos(), "returns an error", "a loaded association row whose key matches no parent is skipped silently (or handled some other way) instead of being reported: rows can go missing from the result without any error")
		return true
	})
	if nLook == 0 {
		ro.Bad(pre.Name(), "parent look-up", pre.Body.Pos(), "preload no longer looks the parents of a loaded row up in the identity map")
	}

	// ---- reset ----
	rr := c.Rule("C11.reset", "association fields of all parents are reset before attaching (struct and slice/array destinations)", 1)
	kinds := map[string]bool{}
	ast.Inspect(pre.Body, func(n ast.Node) bool {
		sw, ok := n.(*ast.SwitchStmt)
		if !ok || sw.Tag == nil || !strings.HasSuffix(canon(info, sw.Tag), "reflectValue.Kind()") {
			return true
		}
		for _, st := range sw.Body.List {
			cc := st.(*ast.CaseClause)
			sets := false
			ast.Inspect(cc, func(x ast.Node) bool {
				if ce, ok := x.(*ast.CallExpr); ok {
					if sel, ok := ce.Fun.(*ast.SelectorExpr); ok && sel.Sel.Name == "Set" && strings.HasSuffix(canon(info, sel.X), ".Field") {
						sets = true
					}
				}
				return true
			})
			if !sets {
				continue
			}
			for _, e := range cc.List {
				if se, ok := unparen(e).(*ast.SelectorExpr); ok {
					kinds[se.Sel.Name] = true
				}
			}
		}
		return true
	})
	rr.Check(kinds["Struct"] && kinds["Slice"] && kinds["Array"], pre.Name(), "reset covers every destination kind", pre.Body.Pos(), "Struct, Slice, Array", "preload does not reset the association field for every kind of destination ("+keyList(kinds)+"): rows attached by an earlier load stay attached, loaded rows are appended to stale ones")
}

func keyList(m map[string]bool) string {
	var l []string
	for k := range m {
		l = append(l, k)
	}
	sort.Strings(l)
	return strings.Join(l, ", ")
}

// rootIdentOfCall: the identifier a method-call chain such as R.Addr().Interface() or R.Index(i) starts at.
func rootIdentOfCall(ce *ast.CallExpr) *ast.Ident {
	var e ast.Expr = ce
	for {
		switch x := unparen(e).(type) {
		case *ast.CallExpr:
			e = x.Fun
		case *ast.SelectorExpr:
			e = x.X
		case *ast.Ident:
			return x
		default:
			return nil
		}
	}
}
