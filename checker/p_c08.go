package main

// C08 — soft-deleted records are invisible and untouched unless Unscoped is requested.

import (
	"go/ast"
	"go/token"
	"go/types"
	"sort"
	"strings"

	"golang.org/x/tools/go/types/typeutil"
)

func init() {
	register("C08", checkC08,
		"Structural clauses of C08 decided on every site of the current source: (apply) every place that renders SQL for a model applies that model's statement modifiers first - the query/row pipelines range over Schema.QueryClauses, the update executor over UpdateClauses, the delete executor over DeleteClauses, each adding every element with AddClause before Statement.Build; the relation-join builder applies the joined model's QueryClauses to the statement whose WHERE becomes the ON expressions; association look-ups apply the join table's QueryClauses unless unscoped; (unscoped-writers) Statement.Unscoped is set to true only by (*DB).Unscoped, every other store copies another statement's Unscoped, library calls of Unscoped() are guarded by the parent's Unscoped, and the nested-session builders (preloadDB, non-joined preload, association delete) propagate it; (regroup) the soft-delete query modifier regroups a WHERE containing a lone OR into one AND unit before adding its filter, only when not Unscoped and the marker is absent, and stores the marker with the filter; (delete-rewrite) the soft-delete delete modifier, when not Unscoped and no raw SQL, sets the column, applies the query filter and builds with the update pipeline's clause list, and the delete executor builds its own SQL only when none was built. NOT decided: SQL precedence as evaluated by the database, third-party soft-delete plugins, raw SQL supplied by the user.")
}

func checkC08(c *Ctx) {
	p := c.P
	checkC08ClauseConfig(c)
	checkC08JoinFilterGroup(c)
	checkC08AssocUnscoped(c)
	// the soft-delete filter is ANDed next to the user's units: whether a raw unit is grouped first is decided by the
	// parenthesisation decisions of package clause (same rule as C02.siblings)
	checkParenDecisions(c, c.Rule("C08.raw-grouping", "raw units containing AND/OR (in any letter case, ? or named arguments) are parenthesised before the soft-delete filter is ANDed on", 4))
	stmtT := p.Named(pkgGorm, "Statement")
	dbT := p.Named(pkgGorm, "DB")
	schemaT := p.Named(pkgSchema, "Schema")
	addClause := p.Method(stmtT, "AddClause")
	buildM := p.Method(stmtT, "Build")
	execs, _ := executorSet(p)

	clauseFields := map[*types.Var]string{}
	for _, n := range []string{"QueryClauses", "UpdateClauses", "DeleteClauses", "CreateClauses"} {
		clauseFields[p.Field(schemaT, n)] = n
	}
	// applyLoops finds `for _, c := range X.<F> { S.AddClause(c) }` in f and returns X-expression -> event
	type applyLoop struct {
		rs     *ast.RangeStmt
		field  string
		source string // canon of the schema expression
		target string // canon of the statement receiving the clauses
	}
	applyLoops := func(f *FuncSrc) []applyLoop {
		info := f.Pkg.TypesInfo
		var out []applyLoop
		ast.Inspect(f.Body, func(n ast.Node) bool {
			if _, ok := n.(*ast.FuncLit); ok {
				return false
			}
			rs, ok := n.(*ast.RangeStmt)
			if !ok {
				return true
			}
			sel, ok := unparen(rs.X).(*ast.SelectorExpr)
			if !ok {
				return true
			}
			s := info.Selections[sel]
			if s == nil || clauseFields[asVar(s.Obj())] == "" {
				return true
			}
			v, _ := rs.Value.(*ast.Ident)
			if v == nil {
				return true
			}
			for _, st := range rs.Body.List {
				es, ok := st.(*ast.ExprStmt)
				if !ok {
					continue
				}
				ce, ok := es.X.(*ast.CallExpr)
				if !ok {
					continue
				}
				if fn, _ := typeutil.Callee(info, ce).(*types.Func); fn == addClause && len(ce.Args) == 1 && canon(info, ce.Args[0]) == v.Name {
					out = append(out, applyLoop{rs, clauseFields[asVar(s.Obj())], canon(info, sel.X), recvOfExpr(info, ce)})
				}
			}
			return true
		})
		return out
	}
	applyConf := func(f *FuncSrc) *GuardConfig {
		loops := applyLoops(f)
		return &GuardConfig{Name: "c08-apply", Events: func(info *types.Info, n ast.Node) []string {
			var out []string
			for _, l := range loops {
				if n == ast.Node(l.rs.X) {
					out = append(out, "applied:"+l.field+":"+l.target)
				}
			}
			return out
		}}
	}
	hasApplied := func(facts factSet, field, target string) bool {
		ev := fEvent("applied:" + field + ":" + target)
		if facts.Has(ev) {
			return true
		}
		for f := range facts {
			if strings.HasPrefix(f, "J:NN:") && strings.HasSuffix(f, ".Schema=>"+ev) {
				return true // applied whenever the statement has a schema
			}
		}
		return false
	}

	// ---- C08.apply ----
	ra := c.Rule("C08.apply", "every SQL-building site for a model applies the model's query/update/delete clauses before Statement.Build", 6)
	want := map[string]string{"query": "QueryClauses", "row": "QueryClauses", "update": "UpdateClauses", "delete": "DeleteClauses"}
	bqs := p.FuncDecl(pkgCallbacks, "BuildQuerySQL")
	for _, f := range p.FuncsOf(pkgCallbacks) {
		info := f.Pkg.TypesInfo
		for _, call := range callsIn(f) {
			if fn, _ := typeutil.Callee(info, call).(*types.Func); fn != buildM {
				continue
			}
			// only builds of the pipeline's clause list
			if len(call.Args) != 1 || !call.Ellipsis.IsValid() || !strings.HasSuffix(canon(info, call.Args[0]), ".BuildClauses") {
				continue
			}
			target := recvOfExpr(info, call)
			field := ""
			if reg := execs[f]; reg != nil {
				field = want[reg.Pipeline]
			}
			if f == bqs {
				field = "QueryClauses"
			}
			if field == "" {
				if reg := execs[f]; reg != nil && reg.Pipeline == "create" {
					continue // create has no visibility filter; CreateClauses are applied under !Unscoped by design
				}
				ra.Bad(f.Name(), "Build(BuildClauses...)", call.Pos(), "a pipeline statement is built in a function that is not a known executor: the model's visibility clauses are not applied there")
				continue
			}
			c.Touch(f)
			facts, live := p.Guards(f, applyConf(f)).At(call.Pos())
			ra.Check(live && hasApplied(facts, field, target), f.Name(), "apply "+field+" before Build", call.Pos(), "range over Schema."+field+" with AddClause precedes Build whenever a schema is present", "the statement is built without first applying Schema."+field+": soft-deleted rows are visible to / touched by this path", "facts: "+strings.Join(facts.List(), ", "))
		}
	}
	// executors of query/row must go through BuildQuerySQL
	for f, reg := range execs {
		if f != reg.Fn || !(reg.Pipeline == "query" || reg.Pipeline == "row") {
			continue
		}
		hasDriver := false
		for _, s := range p.DriverSites() {
			if execs[s.F] == reg && s.Kind == DrvStmt {
				hasDriver = true
			}
		}
		if !hasDriver {
			continue
		}
		c.Touch(f)
		for _, s := range p.DriverSites() {
			if s.F != f || s.Kind != DrvStmt {
				continue
			}
			facts, live := p.Guards(f, nil).At(s.Call.Pos())
			ra.Check(live && facts.Has(fCalled(bqs.Obj.FullName())), f.Name(), "query built by BuildQuerySQL", s.Call.Pos(), "BuildQuerySQL dominates the driver call", "a "+reg.Pipeline+" executor sends a statement that was not built by BuildQuerySQL (which applies the query clauses)")
		}
	}
	// relation joins: the closure that builds a clause.Join for a relation applies FieldSchema.QueryClauses
	joinT := p.Named(pkgClause, "Join")
	nJoin := 0
	for _, f := range append([]*FuncSrc{bqs}, p.AllLits(bqs)...) {
		info := f.Pkg.TypesInfo
		for _, lit := range litsOfType(info, f.Body, joinT, false) {
			tbl := compositeField(lit, "Table")
			tlit, _ := unparen(tbl).(*ast.CompositeLit)
			if tbl == nil || tlit == nil {
				continue // raw SQL joins
			}
			if nm := compositeField(tlit, "Name"); nm == nil || !strings.HasSuffix(canon(info, nm), ".FieldSchema.Table") {
				continue
			}
			nJoin++
			c.Touch(f)
			okj := false
			for _, l := range applyLoops(f) {
				if l.field == "QueryClauses" && strings.HasSuffix(l.source, ".FieldSchema") {
					// the target statement's WHERE must feed the ON expressions: target is built with Where.Build(&target)
					okj = true
				}
			}
			on := compositeField(lit, "ON")
			ra.Check(okj && on != nil, f.Name(), "relation join applies the joined model's QueryClauses", lit.Pos(), "FieldSchema.QueryClauses applied to the ON statement", "a relation JOIN is built without applying the joined model's query clauses: soft-deleted associated rows are joined in")
		}
	}
	ra.Check(nJoin >= 1, bqs.Name(), "relation join builder exists", bqs.Body.Pos(), "found", "no relation join builder found; rule lost its anchor")
	// association look-ups through a join table
	bc := p.MethodDecl(pkgGorm, "Association", "buildCondition")
	c.Touch(bc)
	{
		okb := false
		for _, l := range applyLoops(bc) {
			if l.field == "QueryClauses" && strings.HasSuffix(l.source, ".JoinTable") {
				facts, live := p.Guards(bc, nil).At(l.rs.X.Pos())
				if live && hasFactPrefix(facts, "F:") {
					for f := range facts {
						if strings.HasPrefix(f, "F:") && strings.HasSuffix(f, ".Statement.Unscoped") {
							okb = true
						}
					}
				}
			}
		}
		ra.Check(okb, bc.Name(), "join-table QueryClauses applied unless unscoped", bc.Body.Pos(), "applied under !Unscoped", "association look-ups through a join table do not apply the join table's query clauses (or apply them even when unscoped)")
	}

	// the application of a model's clauses is conditional only on that model's schema being present, on
	// Unscoped, or on the clause list itself - never on an unrelated condition
	for _, f := range p.FuncsOf(pkgGorm, pkgCallbacks) {
		loops := applyLoops(f)
		if len(loops) == 0 {
			continue
		}
		gs := p.Guards(f, nil)
		for _, l := range loops {
			if l.field == "CreateClauses" {
				continue
			}
			facts, live := gs.At(l.rs.X.Pos())
			if !live {
				continue
			}
			var foreign []string
			for fc := range facts {
				var body string
				switch {
				case strings.HasPrefix(fc, "NN:"):
					body = fc[3:]
				case strings.HasPrefix(fc, "N:"), strings.HasPrefix(fc, "T:"), strings.HasPrefix(fc, "F:"):
					body = fc[2:]
				default:
					continue
				}
				if strings.HasPrefix(fc, "N:") {
					if !strings.HasSuffix(body, ".Error") { // "no earlier error": nothing is executed otherwise
						foreign = append(foreign, fc)
					}
					continue
				}
				okc := false
				// about the schema whose clauses are applied (or a prefix of its path), its clause list, or Unscoped
				for pre := l.source; pre != ""; {
					if body == pre || strings.Contains(body, pre+"."+l.field) {
						okc = true
					}
					i := strings.LastIndex(pre, ".")
					if i < 0 {
						break
					}
					pre = pre[:i]
				}
				if strings.HasSuffix(body, ".Unscoped") && strings.HasPrefix(fc, "F:") {
					okc = true
				}
				if !okc {
					foreign = append(foreign, fc)
				}
			}
			sort.Strings(foreign)
			c.Touch(f)
			ra.Check(len(foreign) == 0, f.Name(), "apply "+l.field+" of "+l.source+" unconditionally", l.rs.Pos(), "conditional only on the schema / Unscoped / the clause list", "the "+l.field+" of "+l.source+" are applied only under an unrelated condition ("+strings.Join(foreign, ", ")+"): on the other paths the model's soft-delete filter is missing")
		}
	}

	checkC08WhereKept(c)
	checkC08GroupSubject(c)
	checkC08ClauseProbe(c)

	// ---- C08.unscoped-writers ----
	ru := c.Rule("C08.unscoped-writers", "WHO-WRITES(Statement.Unscoped): true only in (*DB).Unscoped; otherwise copies of another statement's Unscoped; library Unscoped() calls guarded; nested sessions propagate", 7)
	unF := p.Field(stmtT, "Unscoped")
	unM := p.Method(dbT, "Unscoped")
	propagators := map[string]bool{}
	for _, st := range p.FieldStores(unF) {
		name := ssaFuncName(st.Fn)
		c.TouchName(name)
		if st.Val == nil {
			ru.Bad(name, "addr:Statement.Unscoped", st.Pos, "address of Statement.Unscoped escapes")
			continue
		}
		vp := valuePaths(st.Val)
		switch {
		case len(vp) == 1 && vp[0] == "const:true":
			// `if parent.Statement.Unscoped { child.Statement.Unscoped = true }` is a copy of the parent's setting
			copied := false
			if src := p.srcOfSSA(st.Fn); src != nil && st.Fn != p.SSAFunc(unM) {
				if facts, live := p.Guards(src, nil).At(st.Pos); live {
					for fc := range facts {
						if strings.HasPrefix(fc, "T:") && strings.HasSuffix(fc, ".Statement.Unscoped") {
							copied = true
						}
					}
				}
			}
			if copied {
				ru.OK(name, "Unscoped = true under another statement's Unscoped", st.Pos, "propagation of the parent's setting")
				propagators[rootSSA(st.Fn).Name()] = true
				continue
			}
			ru.Check(st.Fn == p.SSAFunc(unM), name, "Unscoped = true", st.Pos, "the user-facing Unscoped()", "Statement.Unscoped is forced to true outside (*DB).Unscoped: soft-deleted rows become visible without the user asking")
		case len(vp) >= 1 && allSuffix(vp, ".Unscoped"):
			ru.OK(name, "Unscoped copied from "+strings.Join(vp, "|"), st.Pos, "propagation of the parent's setting")
			propagators[rootSSA(st.Fn).Name()] = true
		default:
			ru.Bad(name, "Unscoped = "+strings.Join(vp, "|"), st.Pos, "Statement.Unscoped is computed from something other than another statement's Unscoped")
		}
	}
	for _, f := range p.FuncsOf(pkgGorm, pkgCallbacks, pkgMigrator) {
		info := f.Pkg.TypesInfo
		for _, call := range callsIn(f) {
			if fn, _ := typeutil.Callee(info, call).(*types.Func); fn != unM {
				continue
			}
			c.Touch(f)
			facts, live := p.Guards(f, nil).At(call.Pos())
			okg := false
			for fc := range facts {
				if strings.HasPrefix(fc, "T:") && strings.HasSuffix(fc, ".Unscoped") || strings.HasPrefix(fc, "T:") && strings.HasSuffix(fc, ".Unscope") {
					okg = true
				}
			}
			if okg {
				propagators[rootFunc(f).Obj.Name()] = true
			}
			ru.Check(live && okg, f.Name(), "library call of Unscoped()", call.Pos(), "only when the parent is unscoped", "library code calls Unscoped() unconditionally: the nested statement sees soft-deleted rows although the user did not ask", "facts: "+strings.Join(facts.List(), ", "))
		}
	}
	// a FRESH statement (getInstance's new-statement arm, reached through Session{NewDB: true}: the tx of hooks,
	// of the FindInBatches callback, association sessions) inherits Unscoped only under Config.PropagateUnscoped
	{
		gi := p.MethodDecl(pkgGorm, "DB", "getInstance")
		ginfo := gi.Pkg.TypesInfo
		ggs := p.Guards(gi, nil)
		for _, lit := range litsOfType(ginfo, gi.Body, stmtT, false) {
			if v := compositeField(lit, "Unscoped"); v != nil {
				facts, _ := ggs.At(lit.Pos())
				okp := false
				for fc := range facts {
					if strings.HasPrefix(fc, "T:") && strings.HasSuffix(fc, ".PropagateUnscoped") {
						okp = true
					}
				}
				ru.Check(okp, gi.Name(), "fresh statement inherits Unscoped", v.Pos(), "only under Config.PropagateUnscoped", "a fresh statement always inherits Unscoped from the statement it is started from: statements begun through Session{NewDB: true} from an unscoped one (the tx handed to hooks and to FindInBatches callbacks) see soft-deleted rows and delete physically although nobody asked")
			}
		}
		ast.Inspect(gi.Body, func(n ast.Node) bool {
			as, ok := n.(*ast.AssignStmt)
			if !ok {
				return true
			}
			for _, l := range as.Lhs {
				if !fieldSel(ginfo, l, unF) {
					continue
				}
				facts, _ := ggs.At(as.Pos())
				okp := false
				for fc := range facts {
					if strings.HasPrefix(fc, "T:") && strings.HasSuffix(fc, ".PropagateUnscoped") {
						okp = true
					}
				}
				ru.Check(okp, gi.Name(), "fresh statement inherits Unscoped", as.Pos(), "only under Config.PropagateUnscoped", "getInstance copies Unscoped into a fresh statement without the PropagateUnscoped option")
			}
			return true
		})
	}
	for _, want := range []string{"preloadDB", "preloadEntryPoint", "DeleteBeforeAssociations"} {
		ru.Check(propagators[want], "callbacks."+want, "propagates Unscoped to its nested session", p.FuncDecl(pkgCallbacks, want).Body.Pos(), "parent's Unscoped reaches the nested statement", want+" builds a nested session without propagating the parent's Unscoped: Unscoped() is silently lost for preloads / association deletes")
	}

	// ---- C08.unscoped-source ----
	// The soft-delete modifiers are also applied to scratch statements (relation-join ON, join-table
	// look-ups) that carry the handle (DB) but not the per-chain Unscoped flag: the flag must be read
	// through the handle's statement, unless every such scratch literal copies Unscoped.
	rsrc := c.Rule("C08.unscoped-source", "soft-delete modifiers read Unscoped of the handle's statement (or every scratch statement they are applied to copies it)", 2)
	scratchCopies := true
	nScratch := 0
	scratchFields := map[string]bool{}
	for _, f := range p.FuncsOf(pkgGorm, pkgCallbacks) {
		info := f.Pkg.TypesInfo
		for _, l := range applyLoops(f) {
			// target is a local Statement value built by a literal?
			var tid *ast.Ident
			ast.Inspect(l.rs.Body, func(n ast.Node) bool {
				if ce, ok := n.(*ast.CallExpr); ok {
					if sel, ok := ce.Fun.(*ast.SelectorExpr); ok {
						if id, ok := unparen(sel.X).(*ast.Ident); ok && tid == nil {
							tid = id
						}
					}
				}
				return true
			})
			if tid == nil {
				continue
			}
			def := resolveLocal(f, tid)
			lit, ok := unparen(def).(*ast.CompositeLit)
			if def == nil || !ok {
				continue
			}
			if tv, ok := info.Types[lit]; !ok || !types.Identical(tv.Type, stmtT) {
				continue
			}
			nScratch++
			scratchFields[l.field] = true
			if u := compositeField(lit, "Unscoped"); u == nil || !strings.HasSuffix(canon(info, u), ".Statement.Unscoped") {
				scratchCopies = false
			}
		}
	}
	// the modifier types handed out for the clause kinds that are applied to scratch statements
	var modNames []string
	for fld := range scratchFields {
		if prov := p.MethodOpt(p.Named(pkgGorm, "DeletedAt"), fld); prov != nil {
			pf := p.Src(prov)
			ast.Inspect(pf.Body, func(n ast.Node) bool {
				if cl, ok := n.(*ast.CompositeLit); ok {
					if tv, ok := pf.Pkg.TypesInfo.Types[cl]; ok {
						if nt, ok := tv.Type.(*types.Named); ok && p.MethodOpt(nt, "ModifyStatement") != nil {
							modNames = append(modNames, nt.Obj().Name())
						}
					}
				}
				return true
			})
		}
	}
	rsrc.Check(len(modNames) >= 1, "gorm.DeletedAt", "modifiers applied to scratch statements", sdqPos(p), strings.Join(modNames, ","), "no soft-delete modifier is applied to scratch statements any more; rule lost its anchor")
	for _, name := range modNames {
		m := p.MethodDecl(pkgGorm, name, "ModifyStatement")
		c.Touch(m)
		sp := paramName(m, 0)
		via, own := false, false
		ast.Inspect(m.Body, func(n ast.Node) bool {
			if e, ok := n.(ast.Expr); ok {
				switch canon(m.Pkg.TypesInfo, e) {
				case sp + ".DB.Statement.Unscoped":
					via = true
				case sp + ".Unscoped":
					own = true
				}
			}
			return true
		})
		rsrc.Check(via && !own || (own && scratchCopies && nScratch > 0), m.Name(), "Unscoped read through the handle", m.Body.Pos(), "scratch statements (join ON, join-table look-ups) see the user's Unscoped", "the modifier tests the Unscoped field of the statement it is applied to, but "+itoa(nScratch)+" scratch statements receive these modifiers without copying Unscoped: Unscoped() is ignored for relation joins / join-table look-ups")
	}

	// ---- C08.regroup ----
	rr := c.Rule("C08.regroup", "soft-delete query modifier: regroup lone-OR WHERE before the filter, under !Unscoped and marker absent; marker stored with the filter", 4)
	sdq := p.MethodDecl(pkgGorm, "SoftDeleteQueryClause", "ModifyStatement")
	c.Touch(sdq)
	{
		info := sdq.Pkg.TypesInfo
		whereT := p.Named(pkgClause, "Where")
		_ = p.Named(pkgClause, "OrConditions")
		clausesF := p.Field(stmtT, "Clauses")
		var filter *ast.CallExpr
		for _, call := range callsIn(sdq) {
			if fn, _ := typeutil.Callee(info, call).(*types.Func); fn == addClause && len(call.Args) == 1 {
				if lit, ok := unparen(call.Args[0]).(*ast.CompositeLit); ok {
					if tv, ok := info.Types[lit]; ok && types.Identical(tv.Type, whereT) {
						filter = call
					}
				}
			}
		}
		if filter == nil {
			rr.Bad(sdq.Name(), "filter", sdq.Body.Pos(), "the soft-delete query modifier adds no WHERE filter")
		} else {
			facts, live := p.Guards(sdq, nil).At(filter.Pos())
			unsc := false
			for f := range facts {
				if strings.HasPrefix(f, "F:") && strings.HasSuffix(f, ".Unscoped") {
					unsc = true
				}
			}
			rr.Check(live && unsc, sdq.Name(), "filter only when not Unscoped", filter.Pos(), "!Unscoped", "the soft-delete filter is added even for Unscoped statements (or the guard is missing)")
			markerAbsent := false
			for k := range softDeleteMarkerKeys(p) {
				if localFact(sdq, facts, false, filter.Pos(), defIsMapLookupOK(clausesF, strings.Trim(k, `"`))) {
					markerAbsent = true
				}
			}
			rr.Check(live && markerAbsent, sdq.Name(), "filter only once (marker absent)", filter.Pos(), "marker checked", "the soft-delete filter is added without checking the marker: repeated modification stacks filters and defeats the missing-WHERE guard's count")
			store, _ := findRegroup(p, sdq)
			if store == nil {
				rr.Bad(sdq.Name(), "regroup", sdq.Body.Pos(), "the soft-delete query modifier no longer regroups a WHERE that contains a lone OR condition: `a OR b AND deleted_at IS NULL` leaks deleted rows")
			} else {
				gs := p.Guards(sdq, nil)
				back := gs.Reaches(filter.Pos(), func(n ast.Node) bool { return containsNode(n, store) })
				fwd := gs.Reaches(store.Pos(), func(n ast.Node) bool { return containsNode(n, filter) })
				rr.Check(!back && fwd && store.Pos() < filter.Pos(), sdq.Name(), "ORDER(regroup before filter)", store.Pos(), "regrouping precedes the filter", "the filter is added before the user's OR conditions are regrouped: the filter itself is swallowed into the group / precedence is wrong")
				_, hasAnd := findRegroup(p, sdq)
				rr.Check(regroupScansAll(sdq, store), sdq.Name(), "regroup scan examines every member", store.Pos(), "no break/return before the OR unit is found", "the scan for a lone OR unit stops early (at a member that is not the OR unit): `(a AND b) OR c` is not regrouped and the soft-delete filter binds to `c` only - soft-deleted rows matching the first unit are visible")
				rr.Check(hasAnd, sdq.Name(), "regroup builds one AND unit of all user expressions", store.Pos(), "clause.And(where.Exprs...)", "the regrouping does not wrap all user expressions into one AND unit")
			}
			checkSoftDeletePair(p, rr, sdq)
		}
	}

	// ---- C08.delete-rewrite ----
	rd := c.Rule("C08.delete-rewrite", "soft-delete delete modifier rewrites DELETE into a filtered UPDATE; update modifier forwards to the filter; delete executor builds only when nothing was built", 6)
	sdd := p.MethodDecl(pkgGorm, "SoftDeleteDeleteClause", "ModifyStatement")
	sdu := p.MethodDecl(pkgGorm, "SoftDeleteUpdateClause", "ModifyStatement")
	c.Touch(sdd)
	c.Touch(sdu)
	{
		info := sdd.Pkg.TypesInfo
		setT := p.Named(pkgClause, "Set")
		gs := p.Guards(sdd, nil)
		var setCall, filterCall, buildCall *ast.CallExpr
		for _, call := range callsIn(sdd) {
			fn, _ := typeutil.Callee(info, call).(*types.Func)
			switch {
			case fn == addClause && len(call.Args) == 1:
				if tv, ok := info.Types[call.Args[0]]; ok && types.Identical(tv.Type, setT) {
					setCall = call
				}
			case fn == sdq.Obj:
				filterCall = call
			case fn == buildM:
				buildCall = call
			}
		}
		guardOK := func(call *ast.CallExpr) bool {
			if call == nil {
				return false
			}
			facts, live := gs.At(call.Pos())
			if !live {
				return false
			}
			un, raw := false, false
			for f := range facts {
				if strings.HasPrefix(f, "F:") && strings.HasSuffix(f, ".Unscoped") {
					un = true
				}
				if strings.HasPrefix(f, "T:") && strings.HasSuffix(f, ".SQL.Len() == 0") {
					raw = true
				}
			}
			return un && raw
		}
		rd.Check(guardOK(setCall), sdd.Name(), "SET deleted column under !Unscoped && no raw SQL", sdd.Body.Pos(), "marks instead of deleting", "the soft-delete delete modifier does not set the soft-delete column (or does so for Unscoped / raw statements)")
		rd.Check(guardOK(filterCall) && setCall != nil && filterCall != nil, sdd.Name(), "query filter applied to the rewritten delete", sdd.Body.Pos(), "already-deleted rows are untouched", "the rewritten delete does not apply the soft-delete filter: repeated deletes re-stamp already deleted rows")
		okBuild := false
		if buildCall != nil && len(buildCall.Args) == 1 {
			cs := canon(info, buildCall.Args[0])
			okBuild = strings.Contains(cs, ".Update().Clauses") && guardOK(buildCall)
		}
		rd.Check(okBuild, sdd.Name(), "built with the update pipeline's clause list", sdd.Body.Pos(), "UPDATE ... SET ... WHERE", "the rewritten delete is not built with the update pipeline's clause list")
		if setCall != nil && filterCall != nil && buildCall != nil {
			rd.Check(setCall.Pos() < buildCall.Pos() && filterCall.Pos() < buildCall.Pos(), sdd.Name(), "ORDER(set, filter before build)", buildCall.Pos(), "clauses complete before rendering", "the rewritten statement is rendered before the SET clause / filter were added")
		}
		// update modifier forwards to the query filter
		fw := false
		for _, call := range callsIn(sdu) {
			if fn, _ := typeutil.Callee(sdu.Pkg.TypesInfo, call).(*types.Func); fn == sdq.Obj {
				facts, live := p.Guards(sdu, nil).At(call.Pos())
				if live {
					for f := range facts {
						if strings.HasPrefix(f, "F:") && strings.HasSuffix(f, ".Unscoped") {
							fw = true
						}
					}
				}
			}
		}
		rd.Check(fw, sdu.Name(), "update modifier applies the query filter", sdu.Body.Pos(), "updates skip soft-deleted rows", "the soft-delete update modifier does not apply the query filter: updates touch soft-deleted rows")
	}
	for f, reg := range execs {
		if f != reg.Fn || reg.Pipeline != "delete" {
			continue
		}
		info := f.Pkg.TypesInfo
		for _, call := range callsIn(f) {
			if fn, _ := typeutil.Callee(info, call).(*types.Func); fn == buildM {
				c.Touch(f)
				facts, live := p.Guards(f, nil).At(call.Pos())
				okb := false
				for fc := range facts {
					if strings.HasPrefix(fc, "T:") && strings.HasSuffix(fc, ".SQL.Len() == 0") {
						okb = true
					}
				}
				rd.Check(live && okb, f.Name(), "delete executor builds only when no SQL was built", call.Pos(), "the soft-delete rewrite wins", "the delete executor builds DELETE even when the soft-delete modifier already rendered its UPDATE: rows are physically removed")
			}
		}
	}
}

func sdqPos(p *Program) token.Pos {
	return p.MethodDecl(pkgGorm, "SoftDeleteQueryClause", "ModifyStatement").Body.Pos()
}

func allSuffix(ps []string, suf string) bool {
	for _, p := range ps {
		if !strings.HasSuffix(p, suf) {
			return false
		}
	}
	return true
}

// regroupScansAll: the loop that looks for a lone OR unit examines every member: the only way out of it before
// the end is the break/return that follows the regroup store itself.
func regroupScansAll(f *FuncSrc, store *ast.AssignStmt) bool {
	if store == nil {
		return false
	}
	parents := parentMap(f.Body)
	// anchor: the statement whose enclosing `if` is the OR-unit test.  Direct form: the store itself.  Flag
	// form (`found := false; for ... { if <or test> { found = true; break } }; if found { store }`): the
	// assignment that sets the flag.
	anchor := ast.Node(store)
	for cur := ast.Node(store); cur != nil; cur = parents[cur] {
		if ifs, ok := parents[cur].(*ast.IfStmt); ok {
			if set := flagSetter(f, ifs.Cond); set != nil {
				anchor = set
			}
			break
		}
	}
	var loop *ast.RangeStmt
	var storeIf *ast.IfStmt
	for cur := anchor; cur != nil; cur = parents[cur] {
		if ifs, ok := parents[cur].(*ast.IfStmt); ok && storeIf == nil {
			storeIf = ifs
		}
		if rg, ok := parents[cur].(*ast.RangeStmt); ok {
			loop = rg
			break
		}
	}
	if loop == nil {
		return false
	}
	ok := true
	ast.Inspect(loop.Body, func(n ast.Node) bool {
		switch x := n.(type) {
		case *ast.FuncLit:
			return false
		case *ast.BranchStmt:
			if x.Tok.String() == "break" || x.Tok.String() == "goto" {
				if storeIf == nil || !(storeIf.Body.Pos() <= x.Pos() && x.End() <= storeIf.Body.End()) {
					ok = false
				}
			}
		case *ast.ReturnStmt:
			if storeIf == nil || !(storeIf.Body.Pos() <= x.Pos() && x.End() <= storeIf.Body.End()) {
				ok = false
			}
		}
		return true
	})
	return ok
}

// flagSetter: cond is a plain boolean local that is declared false and set to true at exactly one place;
// returns that assignment (nil otherwise).
func flagSetter(f *FuncSrc, cond ast.Expr) ast.Node {
	id, ok := unparen(cond).(*ast.Ident)
	if !ok {
		return nil
	}
	info := f.Pkg.TypesInfo
	obj := info.Uses[id]
	if obj == nil {
		return nil
	}
	var set ast.Node
	n, bad := 0, false
	ast.Inspect(rootFunc(f).Body, func(x ast.Node) bool {
		as, ok := x.(*ast.AssignStmt)
		if !ok || len(as.Lhs) != len(as.Rhs) {
			return true
		}
		for i, l := range as.Lhs {
			lid, ok := l.(*ast.Ident)
			if !ok || (info.Defs[lid] != obj && info.Uses[lid] != obj) {
				continue
			}
			switch v, _ := unparen(as.Rhs[i]).(*ast.Ident); {
			case v != nil && v.Name == "true":
				n++
				set = as
			case v != nil && v.Name == "false":
			default:
				bad = true
			}
		}
		return true
	})
	if bad || n != 1 {
		return nil
	}
	return set
}

// findRegroup recognises the "regroup lone-OR conditions" idiom in f: inside an `if` that type-asserts a
// member of the WHERE expressions to clause.OrConditions, the entry Clauses["WHERE"] is stored back; hasAnd
// reports that the new expression list is clause.And(<all previous expressions>...).
func findRegroup(p *Program, f *FuncSrc) (store *ast.AssignStmt, hasAnd bool) {
	info := f.Pkg.TypesInfo
	orT := p.Named(pkgClause, "OrConditions")
	clausesF := p.Field(p.Named(pkgGorm, "Statement"), "Clauses")
	ast.Inspect(f.Body, func(n ast.Node) bool {
		ifs, ok := n.(*ast.IfStmt)
		if !ok {
			return true
		}
		mentionsOr := false
		ast.Inspect(ifs, func(x ast.Node) bool {
			if ta, ok := x.(*ast.TypeAssertExpr); ok && ta.Type != nil {
				if tv, ok := info.Types[ta.Type]; ok && types.Identical(tv.Type, orT) {
					mentionsOr = true
				}
			}
			return true
		})
		if !mentionsOr {
			// flag form: the condition is a local set to true only inside an `if` that tests for the OR unit
			if set := flagSetter(f, ifs.Cond); set != nil {
				par := parentMap(f.Body)
				for cur := set; cur != nil && !mentionsOr; cur = par[cur] {
					if up, ok := par[cur].(*ast.IfStmt); ok {
						ast.Inspect(up.Cond, func(x ast.Node) bool {
							if ta, ok := x.(*ast.TypeAssertExpr); ok && ta.Type != nil {
								if tv, ok := info.Types[ta.Type]; ok && types.Identical(tv.Type, orT) {
									mentionsOr = true
								}
							}
							return true
						})
						if up.Init != nil {
							ast.Inspect(up.Init, func(x ast.Node) bool {
								if ta, ok := x.(*ast.TypeAssertExpr); ok && ta.Type != nil {
									if tv, ok := info.Types[ta.Type]; ok && types.Identical(tv.Type, orT) {
										mentionsOr = true
									}
								}
								return true
							})
						}
					}
				}
			}
		}
		if !mentionsOr {
			return true
		}
		ast.Inspect(ifs.Body, func(x ast.Node) bool {
			if as, ok := x.(*ast.AssignStmt); ok && len(as.Lhs) == 1 {
				if ix, ok := as.Lhs[0].(*ast.IndexExpr); ok && fieldSel(info, ix.X, clausesF) {
					if k, ok := constString(info, ix.Index); ok && k == "WHERE" {
						store = as
					}
				}
			}
			return true
		})
		return true
	})
	// W.Exprs = []clause.Expression{clause.And(W.Exprs...)} : all previous expressions of the same clause
	ast.Inspect(f.Body, func(x ast.Node) bool {
		as, ok := x.(*ast.AssignStmt)
		if !ok || len(as.Lhs) != 1 || len(as.Rhs) != 1 || !strings.HasSuffix(canon(info, as.Lhs[0]), ".Exprs") {
			return true
		}
		ast.Inspect(as.Rhs[0], func(y ast.Node) bool {
			if ce, ok := y.(*ast.CallExpr); ok {
				if fn, _ := typeutil.Callee(info, ce).(*types.Func); fn != nil && fn.Name() == "And" && fn.Pkg() != nil && fn.Pkg().Path() == pkgClause && ce.Ellipsis.IsValid() && len(ce.Args) == 1 && canon(info, ce.Args[0]) == canon(info, as.Lhs[0]) {
					hasAnd = true
				}
			}
			return true
		})
		return true
	})
	return store, hasAnd
}
