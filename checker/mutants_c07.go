package main

func init() {
	addMutants(
		Mutant{Name: "c07-return-cached-schema-without-wait", Property: "C07", Rule: "C07.cache", Edits: []Edit{{"schema/schema.go",
			"loaded {\n\t\ts := v.(*Schema)\n\t\t// Wait for the initialization of other goroutines to complete\n\t\t<-s.initialized\n", "loaded {\n\t\ts := v.(*Schema)\n"}}},
		Mutant{Name: "c07-publish-with-store", Property: "C07", Rule: "C07.cache", Edits: []Edit{{"schema/schema.go",
			"\tif v, loaded := cacheStore.LoadOrStore(schemaCacheKey, schema); loaded {\n\t\ts := v.(*Schema)\n\t\t// Wait for the initialization of other goroutines to complete\n\t\t<-s.initialized\n\t\treturn s, s.err\n\t}\n",
			"\tcacheStore.Store(schemaCacheKey, schema)\n"}}},
		Mutant{Name: "c07-defer-close-after-publication", Property: "C07", Rule: "C07.cache", Edits: []Edit{
			{"schema/schema.go", "\t// When the schema initialization is completed, the channel will be closed\n\tdefer close(schema.initialized)\n", ""},
			{"schema/schema.go", "\tdefer func() {\n\t\tif schema.err != nil {\n\t\t\tlogger.Default.Error(context.Background(), schema.err.Error())", "\tdefer close(schema.initialized)\n\tdefer func() {\n\t\tif schema.err != nil {\n\t\t\tlogger.Default.Error(context.Background(), schema.err.Error())"}},
			Note: "the two cache re-checks between construction and publication return early and never close the channel of the abandoned schema (harmless), but so does nothing after publication... the rule requires the defer before LoadOrStore"},
		Mutant{Name: "c07-parse-uses-nonwaiting-accessor", Property: "C07", Rule: "C07.cache", Edits: []Edit{{"schema/schema.go",
			"func Parse(dest interface{}, cacheStore *sync.Map, namer Namer) (*Schema, error) {\n\treturn ParseWithSpecialTableName(dest, cacheStore, namer, \"\")", "func Parse(dest interface{}, cacheStore *sync.Map, namer Namer) (*Schema, error) {\n\treturn getOrParse(dest, cacheStore, namer)"}}},
		Mutant{Name: "c07-foreign-relation-map-unlocked", Property: "C07", Rule: "C07.foreign-map", Edits: []Edit{{"schema/relationship.go",
			"\t\t\trelation.FieldSchema.Relationships.Mux.Lock()\n\t\t\trelation.FieldSchema.Relationships.Relations[\"_\"+relation.Schema.Name+\"_\"+relation.Name] = relation\n\t\t\trelation.FieldSchema.Relationships.Mux.Unlock()\n",
			"\t\t\trelation.FieldSchema.Relationships.Relations[\"_\"+relation.Schema.Name+\"_\"+relation.Name] = relation\n"}}},
		Mutant{Name: "c07-global-last-sql", Property: "C07", Rule: "C07.globals", Edits: []Edit{
			{"callbacks.go", "// callbacks gorm callbacks manager\n", "var lastSQL string\n\n// callbacks gorm callbacks manager\n"},
			{"callbacks.go", "\tif !stmt.DB.DryRun {\n\t\tstmt.SQL.Reset()", "\tlastSQL = stmt.SQL.String()\n\tif !stmt.DB.DryRun {\n\t\tstmt.SQL.Reset()"}}},
		Mutant{Name: "c07-execute-rewrites-compiled-list", Property: "C07", Rule: "C07.callbacks", Edits: []Edit{{"callbacks.go",
			"\tfor _, f := range p.fns {\n\t\tf(db)\n\t}\n", "\tp.fns = append(p.fns[:0:0], p.fns...)\n\tfor _, f := range p.fns {\n\t\tf(db)\n\t}\n"}}},
		Mutant{Name: "c07-where-build-swaps-in-place-again", Property: "C07", Rule: "C07.immutability-build", Edits: []Edit{{"clause/where.go",
			"exprs := make([]Expression, len(where.Exprs))\n\t\t\t\tcopy(exprs, where.Exprs)\n\t\t\t\texprs[0], exprs[idx] = exprs[idx], exprs[0]\n\t\t\t\twhere.Exprs = exprs",
			"where.Exprs[0], where.Exprs[idx] = where.Exprs[idx], where.Exprs[0]"}}, Note: "reverts fix 444bcda"},
		Mutant{Name: "c07-order-writes-receiver", Property: "C07", Rule: "C07.immutability-recv", Edits: []Edit{{"chainable_api.go",
			"\tcase clause.OrderBy:\n\t\ttx.Statement.AddClause(v)", "\tcase clause.OrderBy:\n\t\tdb.Statement.AddClause(v)"}}},
		Mutant{Name: "c07-pool-put-before-set", Property: "C07", Rule: "C07.pool", Edits: []Edit{{"scan.go",
			"\t\tif len(joinFields) == 0 || len(joinFields[idx]) == 0 {\n\t\t\tdb.AddError(field.Set(db.Statement.Context, reflectValue, values[idx]))", "\t\tif len(joinFields) == 0 || len(joinFields[idx]) == 0 {\n\t\t\tfield.NewValuePool.Put(values[idx])\n\t\t\tdb.AddError(field.Set(db.Statement.Context, reflectValue, values[idx]))"}}},
		Mutant{Name: "c07-pool-value-leaks-on-nil-join", Property: "C07", Rule: "C07.pool", Edits: []Edit{{"scan.go",
			"\t\t\tif !isNilPtrValue { // ignore if value is nil\n", "\t\t\tif isNilPtrValue {\n\t\t\t\tcontinue\n\t\t\t}\n\t\t\tif !isNilPtrValue { // ignore if value is nil\n"}}},
		Mutant{Name: "c07-stmt-cache-evict-without-lock", Property: "C07", Rule: "C07.stmt-cache.map", Edits: []Edit{{"prepare_stmt.go",
			"\t\t\tdb.Mux.Lock()\n\t\t\tdefer db.Mux.Unlock()\n\t\t\tgo stmt.Close()\n", "\t\t\tgo stmt.Close()\n"}}},
	)
}
