package main

// C04 — Transaction blocks commit everything on success and nothing on error or panic.

import (
	"go/ast"
	"go/token"
	"go/types"
	"strings"

	"golang.org/x/tools/go/ssa"
	"golang.org/x/tools/go/types/typeutil"
)

func init() {
	register("C04", checkC04,
		"Structural clauses of C04 decided by path enumeration over (*DB).Transaction and the transaction-control wrappers: (defer-before-fc) on every path the user function is called only after a deferred closure was registered that rolls back the begun handle (top level) or rolls back to the save point just taken, with the same name (nested; not required when DisableNestedTransaction is set); (panic-flag) the deferred rollback is conditioned on `flag || err != nil` with err the named result, the flag starts true and is cleared only after the user function returned; (commit) when the user function returned nil the top-level arm commits the begun handle and returns Commit().Error through the named result (so a failed commit is rolled back), and never commits when it returned an error; (begin) the user function is reached only when Begin/SavePoint reported no error, and Begin installs the pool returned by BeginTx on the derived handle; (forward) Commit/Rollback of *DB end every path in the pool's Commit/Rollback or ErrInvalidTransaction, the PreparedStmtTX wrappers forward to the wrapped transaction; (restore) SavePoint/RollbackTo restore the prepared-statement pool they temporarily replace on every path. NOT decided: what the database does on COMMIT/ROLLBACK, durability, third-party ConnPools.")
}

func checkC04(c *Ctx) {
	p := c.P
	dbT := p.Named(pkgGorm, "DB")
	tr := p.MethodDecl(pkgGorm, "DB", "Transaction")
	c.Touch(tr)
	info := tr.Pkg.TypesInfo
	recv := recvName(tr)
	fcName := paramName(tr, 0)
	beginM := p.Method(dbT, "Begin")
	commitM := p.Method(dbT, "Commit")
	rollbackM := p.Method(dbT, "Rollback")
	rollbackToM := p.Method(dbT, "RollbackTo")
	savePointM := p.Method(dbT, "SavePoint")
	errName := ""
	if tr.Type.Results != nil && len(tr.Type.Results.List) == 1 && len(tr.Type.Results.List[0].Names) == 1 {
		errName = tr.Type.Results.List[0].Names[0].Name
	}
	callee := func(ce *ast.CallExpr) *types.Func {
		fn, _ := typeutil.Callee(info, ce).(*types.Func)
		return fn
	}
	findCall := func(n ast.Node, m *types.Func, intoLits bool) *ast.CallExpr {
		var found *ast.CallExpr
		ast.Inspect(n, func(x ast.Node) bool {
			if _, ok := x.(*ast.FuncLit); ok && !intoLits {
				return false
			}
			if ce, ok := x.(*ast.CallExpr); ok && callee(ce) == m && found == nil {
				found = ce
			}
			return true
		})
		return found
	}
	isFcCall := func(n ast.Node) *ast.CallExpr {
		var found *ast.CallExpr
		ast.Inspect(n, func(x ast.Node) bool {
			if _, ok := x.(*ast.FuncLit); ok {
				return false
			}
			if ce, ok := x.(*ast.CallExpr); ok {
				if id, ok := unparen(ce.Fun).(*ast.Ident); ok && id.Name == fcName {
					if _, isVar := info.Uses[id].(*types.Var); isVar {
						found = ce
					}
				}
			}
			return true
		})
		return found
	}
	recvOf := func(ce *ast.CallExpr) string {
		if sel, ok := ce.Fun.(*ast.SelectorExpr); ok {
			return canon(info, sel.X)
		}
		return ""
	}

	// the flag: a bool local initialised to true and assigned false somewhere
	flag := ""
	ast.Inspect(tr.Body, func(n ast.Node) bool {
		if as, ok := n.(*ast.AssignStmt); ok && as.Tok == token.DEFINE && len(as.Lhs) == 1 && len(as.Rhs) == 1 {
			if b, ok := constBool(info, as.Rhs[0]); ok && b {
				if id, ok := as.Lhs[0].(*ast.Ident); ok && flag == "" {
					flag = id.Name
				}
			}
		}
		return true
	})

	rdef := c.Rule("C04.defer-before-fc", "the user function runs only after a deferred rollback (of the begun handle / to the save point just taken) was registered", 2)
	rflag := c.Rule("C04.panic-flag", "rollback conditioned on flag || err != nil (named result); flag starts true and is cleared only after the user function returned", 3)
	rcom := c.Rule("C04.commit", "commit on success through the named result; never after an error", 2)
	rbeg := c.Rule("C04.begin", "user function reached only when Begin/SavePoint succeeded; Begin installs the pool returned by BeginTx", 3)

	paths, ok := p.EnumPaths(tr, nil, 20000)
	if !ok {
		rdef.Unknown(tr.Name(), "paths", tr.Body.Pos(), "too many paths")
	}
	rflag.Check(flag != "" && errName != "", tr.Name(), "flag and named result exist", tr.Body.Pos(), "flag "+flag+", named result "+errName, "Transaction has no panic flag initialised to true or no named error result: a panic or a failed commit cannot be seen by the deferred rollback")

	nTop, nNested := 0, 0
	for _, pr := range paths {
		var deferNode *ast.DeferStmt
		var spCall, beginCall, fcCall *ast.CallExpr
		fcIdx := -1
		var flagClears []int
		for i, n := range pr.Nodes {
			if d, ok := n.(*ast.DeferStmt); ok {
				if lit, ok := d.Call.Fun.(*ast.FuncLit); ok && (findCall(lit.Body, rollbackM, true) != nil || findCall(lit.Body, rollbackToM, true) != nil) {
					if fcIdx < 0 {
						deferNode = d
					}
				}
			}
			if ce := findCall(n, savePointM, false); ce != nil && fcIdx < 0 {
				spCall = ce
			}
			if ce := findCall(n, beginM, false); ce != nil && fcIdx < 0 {
				beginCall = ce
			}
			if ce := isFcCall(n); ce != nil && fcIdx < 0 {
				fcCall, fcIdx = ce, i
			}
			if as, ok := n.(*ast.AssignStmt); ok && len(as.Lhs) == 1 && len(as.Rhs) == 1 {
				if id, ok := as.Lhs[0].(*ast.Ident); ok && id.Name == flag && as.Tok == token.ASSIGN {
					if b, isC := constBool(info, as.Rhs[0]); isC && !b {
						flagClears = append(flagClears, i)
					}
				}
			}
		}
		desc := "path to " + p.Pos(pr.Exit)
		// panic flag cleared only after fc returned
		for _, i := range flagClears {
			rflag.Check(fcIdx >= 0 && i > fcIdx, tr.Name(), desc+": "+flag+" = false after "+fcName, pr.Nodes[i].Pos(), "cleared after the user function returned", "the panic flag is cleared on a path before the user function has returned: a panic inside the block is not rolled back")
		}
		if fcCall == nil {
			continue
		}
		// classify arm
		nestedDisabled := pr.Facts.Has(fTrue(recv + ".Config.DisableNestedTransaction"))
		switch {
		case beginCall != nil:
			nTop++
			// tx variable: LHS of the Begin assignment
			txVar := ""
			for _, n := range pr.Nodes {
				if as, ok := n.(*ast.AssignStmt); ok && len(as.Lhs) == 1 && len(as.Rhs) == 1 && containsNode(as.Rhs[0], beginCall) {
					txVar = canon(info, as.Lhs[0])
				}
			}
			var problems []string
			if deferNode == nil {
				problems = append(problems, "no deferred rollback registered before "+fcName+" is called")
			} else {
				rb := findCall(deferNode.Call.Fun.(*ast.FuncLit).Body, rollbackM, true)
				if rb == nil || recvOf(rb) != txVar {
					problems = append(problems, "deferred closure does not roll back the begun handle "+txVar)
				}
			}
			if len(fcCall.Args) != 1 || canon(info, fcCall.Args[0]) != txVar {
				problems = append(problems, fcName+" does not receive the begun handle")
			}
			rdef.Check(len(problems) == 0, tr.Name(), desc+" (top-level)", fcCall.Pos(), "defer rollback("+txVar+") then "+fcName+"("+txVar+")", strings.Join(problems, "; "))
			rbeg.Check(pr.Before[fcIdx].Has(fNil(txVar+".Error")), tr.Name(), desc+": Begin succeeded", fcCall.Pos(), txVar+".Error == nil", "the user function runs although Begin reported an error (no transaction is open)")
			// commit discipline
			commit := (*ast.CallExpr)(nil)
			for _, n := range pr.Nodes[fcIdx:] {
				if ce := findCall(n, commitM, false); ce != nil {
					commit = ce
				}
			}
			if pr.Facts.Has(fNil(errName)) {
				okc := commit != nil && recvOf(commit) == txVar && pr.Return != nil && len(pr.Return.Results) == 1 && containsNode(pr.Return.Results[0], commit) && strings.HasSuffix(canon(info, pr.Return.Results[0]), ".Error")
				rcom.Check(okc, tr.Name(), desc+": success commits through the named result", pr.Exit, "return "+txVar+".Commit().Error", "after the user function returned nil the transaction is not committed, or the commit error is not returned through the named result (a failed COMMIT would not be rolled back nor reported)")
			} else if pr.Facts.Has(fNonNil(errName)) {
				rcom.Check(commit == nil, tr.Name(), desc+": error path does not commit", pr.Exit, "no Commit", "the transaction is committed although the user function returned an error")
			}
		case spCall != nil || nestedDisabled || deferNode != nil:
			nNested++
			if nestedDisabled {
				rdef.Check(spCall == nil, tr.Name(), desc+" (nested, disabled)", fcCall.Pos(), "no save point under DisableNestedTransaction", "a save point is taken although nested transactions are disabled")
				continue
			}
			var problems []string
			if spCall == nil {
				problems = append(problems, "no SavePoint before "+fcName)
			}
			if deferNode == nil {
				problems = append(problems, "no deferred RollbackTo registered before "+fcName+" is called")
			}
			if spCall != nil && deferNode != nil {
				rt := findCall(deferNode.Call.Fun.(*ast.FuncLit).Body, rollbackToM, true)
				if rt == nil || len(rt.Args) != 1 || len(spCall.Args) != 1 || canon(info, rt.Args[0]) != canon(info, spCall.Args[0]) || recvOf(rt) != recvOf(spCall) {
					problems = append(problems, "RollbackTo does not name the save point that was just taken on the same handle")
				}
				if rt != nil && len(fcCall.Args) == 1 && canon(info, fcCall.Args[0]) == recvOf(rt) {
					problems = append(problems, "the deferred RollbackTo runs on the very handle that is handed to the block ("+recvOf(rt)+"): RollbackTo executes a statement through that handle and is skipped once the block has put an error on it")
				}
			}
			rdef.Check(len(problems) == 0, tr.Name(), desc+" (nested)", fcCall.Pos(), "SavePoint(sp); defer RollbackTo(sp); "+fcName, strings.Join(problems, "; "))
			rbeg.Check(pr.Before[fcIdx].Has(fNil(errName)), tr.Name(), desc+": SavePoint succeeded", fcCall.Pos(), errName+" == nil after SavePoint", "the nested block runs although SAVEPOINT failed: a later RollbackTo cannot undo it")
		default:
			// nested arm without save point and without the DisableNestedTransaction fact
			rdef.Bad(tr.Name(), desc, fcCall.Pos(), "the user function is called on a path with neither Begin nor SavePoint nor DisableNestedTransaction: its writes cannot be undone")
		}
	}
	rdef.Check(nTop > 0 && nNested > 0, tr.Name(), "both arms exist", tr.Body.Pos(), "top-level and nested arms", "Transaction lost its top-level or nested arm")

	// the deferred closures' condition
	for _, lit := range p.Lits(tr) {
		linfo := lit.Pkg.TypesInfo
		for _, call := range callsIn(lit) {
			fn, _ := typeutil.Callee(linfo, call).(*types.Func)
			if fn != rollbackM && fn != rollbackToM {
				continue
			}
			facts, live := p.Guards(lit, nil).At(call.Pos())
			want1 := fTrue(flag + " || " + errName + " != nil")
			want2 := fTrue(errName + " != nil || " + flag)
			rflag.Check(live && (facts.Has(want1) || facts.Has(want2)), lit.Name(), "deferred "+fn.Name()+" condition", call.Pos(), "if "+flag+" || "+errName+" != nil", "the deferred "+fn.Name()+" is not conditioned on `"+flag+" || "+errName+" != nil`: either successful blocks are rolled back, or panics / errors / failed commits are not", "facts: "+strings.Join(facts.List(), ", "))
		}
	}

	// Begin installs the pool BeginTx returned
	begin := p.MethodDecl(pkgGorm, "DB", "Begin")
	c.Touch(begin)
	{
		stmtT := p.Named(pkgGorm, "Statement")
		poolF := p.Field(stmtT, "ConnPool")
		n := 0
		for _, st := range p.FieldStores(poolF) {
			if st.Fn != p.SSAFunc(begin.Obj) || st.Val == nil {
				continue
			}
			n++
			vp := valuePaths(st.Val)
			ap := valuePaths(st.Addr)
			okb := len(vp) == 1 && strings.HasSuffix(vp[0], ".BeginTx()#0") && len(ap) == 1 && strings.HasPrefix(vp[0], strings.TrimSuffix(ap[0], ".ConnPool")+".")
			rbeg.Check(okb, begin.Name(), "pool = BeginTx result", st.Pos, "the derived handle's statement runs on the transaction it began", "Begin stores "+strings.Join(vp, "|")+" into "+strings.Join(ap, "|")+": the handle does not run on the transaction that was begun on its own pool")
		}
		rbeg.Check(n >= 1, begin.Name(), "installs a pool", begin.Body.Pos(), "stores the transaction pool", "Begin never installs the transaction pool on the returned handle")
		// every BeginTx call's transaction must be installed
		for _, s := range p.DriverSites() {
			if s.Kind != DrvBegin || rootFunc(s.F) != begin {
				continue
			}
			ci := p.ssaCall(s.F, s.Call)
			installed := false
			if call, ok := ci.(*ssa.Call); ok {
				for _, ref := range *call.Referrers() {
					if ex, ok := ref.(*ssa.Extract); ok && ex.Index == 0 {
						var follow func(v ssa.Value, d int)
						follow = func(v ssa.Value, d int) {
							if d > 3 || v.Referrers() == nil {
								return
							}
							for _, r2 := range *v.Referrers() {
								switch r2 := r2.(type) {
								case *ssa.Store:
									if fa, ok := r2.Addr.(*ssa.FieldAddr); ok && fieldVar(fa.X.Type(), fa.Field) == poolF {
										installed = true
									}
								case *ssa.MakeInterface:
									follow(r2, d+1)
								case *ssa.ChangeInterface:
									follow(r2, d+1)
								}
							}
						}
						follow(ex, 0)
					}
				}
			}
			rbeg.Check(installed, begin.Name(), "BeginTx result installed", s.Call.Pos(), "transaction becomes the handle's pool", "a transaction is begun but not installed as the returned handle's pool: the block's statements run outside it and it is never finished")
		}
	}

	// ---- C04.forward ----
	checkTxForward(c, c.Rule("C04.forward", "Commit/Rollback end every path in the pool's Commit/Rollback or ErrInvalidTransaction; prepared-statement wrappers forward", 6))

	// ---- C04.tx-bound ----
	// with prepared statements, every statement of a transaction must be re-bound to it (Tx.StmtContext);
	// a cached statement executed directly runs on another connection, outside the block being committed/rolled back
	rtb := c.Rule("C04.tx-bound", "PreparedStmtTX executes cached statements only through Tx.StmtContext", 3)
	{
		pstx := p.Named(pkgGorm, "PreparedStmtTX")
		for i := 0; i < pstx.NumMethods(); i++ {
			f := p.SrcOpt(pstx.Method(i))
			if f == nil {
				continue
			}
			finfo := f.Pkg.TypesInfo
			for _, call := range callsIn(f) {
				fn, _ := typeutil.Callee(finfo, call).(*types.Func)
				if k, iface, ok := p.driverCallee(fn); ok && k == DrvStmt && !iface {
					c.Touch(f)
					rtb.Check(boundToTx(p, f, call), f.Name(), fn.Name()+" re-bound to the transaction", call.Pos(), "runs inside the transaction", "a prepared statement is executed inside a transaction wrapper without (on every path) being re-bound with Tx.StmtContext: the write is auto-committed on another connection and survives a rollback of the block")
				}
			}
		}
	}

	// ---- C04.restore ----
	checkC04BlockHandle(c)
	checkC04ConnRelease(c)
	checkC04ErrUnchanged(c)
	checkC16BlockKeepsChain(c, c.Rule("C04.block-keeps-chain", "the handle a transaction block receives keeps the chain's statement unless the receiver is a root handle (nested arm and Begin agree)", 2))
	// a BEGIN / SAVEPOINT / COMMIT / ROLLBACK that failed must be reported: a Begin that drops the driver's error
	// leaves the handle on the plain pool, the block runs in autocommit and the later Rollback undoes nothing
	// (same rule as C05.errors, restricted to the transaction API)
	rte := c.Rule("C04.tx-errors", "the error of every driver / save-point call in Begin, Commit, Rollback, SavePoint, RollbackTo and Transaction reaches AddError, an Error field or the caller", 5)
	rte.Exempt("gorm.(*DB).Transaction$rollback", "best-effort Rollback/RollbackTo in Transaction's deferred closure: the original error or panic is what propagates")
	checkErrorFlow(c, rte, map[string]bool{"(*gorm.DB).Begin": true, "(*gorm.DB).Commit": true, "(*gorm.DB).Rollback": true, "(*gorm.DB).SavePoint": true, "(*gorm.DB).RollbackTo": true, "(*gorm.DB).Transaction": true})

	// ---- C04.pool-kept ----
	// inside a transaction the statement's pool is the transaction; library code installs the base pool
	// (DB.Config.ConnPool) on a statement only at Open, when the current pool is no transaction (type switch
	// without a Tx match), or after it finished an implicit transaction of its own
	rpk := c.Rule("C04.pool-kept", "WHO-WRITES(Statement.ConnPool <- base pool): Open, non-transaction arm of Session, finished implicit transaction", 3)
	{
		stmtT0 := p.Named(pkgGorm, "Statement")
		poolF := p.Field(stmtT0, "ConnPool")
		basePoolF := p.Field(p.Named(pkgGorm, "Config"), "ConnPool")
		txI := p.Named(pkgGorm, "Tx")
		mentionsBase := func(info *types.Info, e ast.Expr) bool {
			found := false
			ast.Inspect(e, func(x ast.Node) bool {
				if se, ok := x.(*ast.SelectorExpr); ok {
					if v, _ := info.Uses[se.Sel].(*types.Var); v == basePoolF {
						found = true
					}
				}
				return true
			})
			return found
		}
		for _, f := range p.FuncsOf(pkgGorm, pkgCallbacks, pkgMigrator, pkgSchema, pkgClause) {
			info := f.Pkg.TypesInfo
			parents := parentMap(f.Body)
			ast.Inspect(f.Body, func(n ast.Node) bool {
				if _, ok := n.(*ast.FuncLit); ok {
					return false
				}
				var lhs, rhs ast.Expr
				switch x := n.(type) {
				case *ast.AssignStmt:
					for i, l := range x.Lhs {
						if fieldSel(info, l, poolF) && len(x.Rhs) == len(x.Lhs) && mentionsBase(info, x.Rhs[i]) {
							lhs, rhs = l, x.Rhs[i]
						}
					}
				case *ast.CompositeLit:
					if tv, ok := info.Types[x]; ok && (types.Identical(tv.Type, stmtT0) || p.isNamedPtr(tv.Type, stmtT0)) {
						if v := compositeField(x, "ConnPool"); v != nil && mentionsBase(info, v) {
							lhs, rhs = x, v
						}
					}
				}
				if lhs == nil {
					return true
				}
				c.Touch(f)
				root := rootFunc(f)
				desc := "base pool installed: " + exprShort(rhs)
				switch {
				case root.Name() == "gorm.Open":
					rpk.OK(root.Name(), desc, n.Pos(), "the root statement of a freshly opened handle")
				case root.Name() == "callbacks.CommitOrRollbackTransaction":
					rpk.OK(root.Name(), desc, n.Pos(), "decided per path below")
				default:
					// inside a type switch over the statement's current pool, in a clause that does not match Tx
					okArm := false
					for cur := ast.Node(n); cur != nil; cur = parents[cur] {
						cc, ok := cur.(*ast.CaseClause)
						if !ok {
							continue
						}
						ts, ok := parents[parents[cc]].(*ast.TypeSwitchStmt)
						if !ok {
							continue
						}
						// the switch subject is X.Statement.ConnPool
						subject := false
						ast.Inspect(ts.Assign, func(x ast.Node) bool {
							if ta, ok := x.(*ast.TypeAssertExpr); ok && fieldSel(info, ta.X, poolF) {
								subject = true
							}
							return true
						})
						handlesTx, thisIsTx := false, false
						for _, st := range ts.Body.List {
							oc := st.(*ast.CaseClause)
							for _, te := range oc.List {
								if tv, ok := info.Types[te]; ok && types.Identical(tv.Type, txI) {
									handlesTx = true
									if oc == cc {
										thisIsTx = true
									}
								}
							}
						}
						if subject && handlesTx && !thisIsTx {
							okArm = true
						}
					}
					rpk.Check(okArm, root.Name(), desc, n.Pos(), "only when the statement's current pool is not a transaction", "the base connection pool is installed on a statement whose current pool may be a transaction: operations through this handle leave the Transaction block and are not rolled back with it")
				}
				return true
			})
		}
		checkIdlePathsKeepPool(c, rpk)
	}

	checkPoolRestore(c, c.Rule("C04.restore", "SavePoint/RollbackTo restore the prepared-statement pool they temporarily replace on every path", 2))
}

// checkPoolRestore: C04.restore; instantiated for C14 as C14.tx-wrapper-kept (the transaction keeps running through its
// statement-cache wrapper after a save point or a rollback to one).
func checkPoolRestore(c *Ctx, rr *Rule) {
	p := c.P
	stmtT := p.Named(pkgGorm, "Statement")
	poolF := p.Field(stmtT, "ConnPool")
	for _, name := range []string{"SavePoint", "RollbackTo"} {
		f := p.MethodDecl(pkgGorm, "DB", name)
		c.Touch(f)
		finfo := f.Pkg.TypesInfo
		ps, ok := p.EnumPaths(f, nil, 2000)
		if !ok {
			rr.Unknown(f.Name(), "paths", f.Body.Pos(), "too many paths")
		}
		bad := 0
		swaps := 0
		var where token.Pos = f.Body.Pos()
		for _, pr := range ps {
			var swapped string
			state := 0 // 0 none, 1 swapped, 2 restored
			for _, n := range pr.Nodes {
				as, ok := n.(*ast.AssignStmt)
				if !ok || len(as.Lhs) != 1 || len(as.Rhs) != 1 || !fieldSel(finfo, as.Lhs[0], poolF) {
					continue
				}
				rhs := canon(finfo, as.Rhs[0])
				if state == 0 && strings.HasSuffix(rhs, ".Tx") {
					swapped = strings.TrimSuffix(rhs, ".Tx")
					state = 1
					swaps++
				} else if state == 1 && rhs == swapped {
					state = 2
				} else {
					state = 3
				}
			}
			if state == 1 || state == 3 {
				bad++
				where = pr.Exit
			}
		}
		rr.Check(bad == 0 && swaps > 0, f.Name(), "PAIR(swap pool, restore pool)", where, "restored on every path", "(*DB)."+name+" replaces the prepared-statement transaction pool by the raw transaction and a path to "+p.Pos(where)+" does not restore it: later statements of the transaction bypass the statement cache wrapper / the handle changes type")
	}
}

func recvOfExpr(info *types.Info, ce *ast.CallExpr) string {
	if sel, ok := ce.Fun.(*ast.SelectorExpr); ok {
		return canon(info, sel.X)
	}
	return ""
}

// checkTxForward: (*DB).Commit / (*DB).Rollback end every path in the pool's Commit/Rollback (recorded) or in
// ErrInvalidTransaction; the prepared-statement wrappers forward.  C04.forward; instantiated for C05 as
// C05.finish-forward because the implicit transaction of a write is finished through the same two methods.
func checkTxForward(c *Ctx, rf *Rule) {
	p := c.P
	errInvalid := p.Lookup(pkgGorm, "ErrInvalidTransaction")
	for _, name := range []string{"Commit", "Rollback"} {
		f := p.MethodDecl(pkgGorm, "DB", name)
		c.Touch(f)
		finfo := f.Pkg.TypesInfo
		ps, ok := p.EnumPaths(f, nil, 2000)
		if !ok {
			rf.Unknown(f.Name(), "paths", f.Body.Pos(), "too many paths")
		}
		drv := 0
		for _, pr := range ps {
			forwards := pathHasCall(finfo, pr, func(ce *ast.CallExpr) bool {
				fn, _ := typeutil.Callee(finfo, ce).(*types.Func)
				k, _, ok := p.driverCallee(fn)
				return ok && ((name == "Commit" && k == DrvCommit) || (name == "Rollback" && k == DrvRollback))
			}) != nil
			invalid := pathHasCall(finfo, pr, func(ce *ast.CallExpr) bool { return isAddErrorOf(finfo, ce, errInvalid) }) != nil
			nilTx := false
			for fct := range pr.Facts {
				if strings.HasPrefix(fct, "T:") && strings.Contains(fct, "IsNil()") {
					nilTx = true
				}
			}
			if forwards {
				drv++
			}
			okp := forwards || invalid || (name == "Rollback" && nilTx)
			rf.Check(okp, f.Name(), "path to "+p.Pos(pr.Exit), pr.Exit, "forwards / reports ErrInvalidTransaction", "a path through (*DB)."+name+" neither calls the pool's "+name+" nor reports ErrInvalidTransaction: the transaction silently stays open", "facts: "+strings.Join(pr.Facts.List(), ", "))
		}
		rf.Check(drv > 0, f.Name(), "forwarding path exists", f.Body.Pos(), "calls the pool's "+name, "(*DB)."+name+" never calls the pool's "+name)
		// the pool's verdict is recorded unconditionally: the call is the argument of AddError, or its result
		// reaches AddError on every path (no error value of the pool is filtered out)
		gsf := p.Guards(f, nil)
		for _, call := range callsIn(f) {
			fn, _ := typeutil.Callee(finfo, call).(*types.Func)
			k, _, okd := p.driverCallee(fn)
			if !okd || !((name == "Commit" && k == DrvCommit) || (name == "Rollback" && k == DrvRollback)) {
				continue
			}
			recorded := false
			for _, oc := range callsIn(f) {
				if ofn, _ := typeutil.Callee(finfo, oc).(*types.Func); ofn != nil && ofn.Name() == "AddError" && len(oc.Args) == 1 && unparen(oc.Args[0]) == ast.Expr(call) {
					recorded = true
				}
			}
			if !recorded {
				if id := assignedLocal(f, call); id != nil {
					okp, _ := gsf.MustPass(call.Pos(), func(n ast.Node) bool {
						found := false
						ast.Inspect(n, func(x ast.Node) bool {
							if oc, ok := x.(*ast.CallExpr); ok {
								if ofn, _ := typeutil.Callee(finfo, oc).(*types.Func); ofn != nil && ofn.Name() == "AddError" && len(oc.Args) == 1 {
									if aid, ok := unparen(oc.Args[0]).(*ast.Ident); ok && finfo.ObjectOf(aid) == finfo.ObjectOf(id) {
										found = true
									}
								}
							}
							return true
						})
						// the condition node of an `if` that merely contains the call in its init does not count
						if _, isIf := n.(*ast.IfStmt); isIf {
							return false
						}
						return found
					})
					recorded = okp
				}
			}
			rf.Check(recorded, f.Name(), "the pool's "+name+" error is recorded", call.Pos(), "AddError on every path", "(*DB)."+name+" filters the error returned by the pool's "+name+" (some path does not record it): a "+strings.ToLower(name)+" that did not happen - the transaction was already finished, the connection is gone - is reported as success")
		}
	}
	for _, name := range []string{"Commit", "Rollback"} {
		f := p.MethodDecl(pkgGorm, "PreparedStmtTX", name)
		c.Touch(f)
		finfo := f.Pkg.TypesInfo
		okAll, n := true, 0
		forwards := false
		ast.Inspect(f.Body, func(nd ast.Node) bool {
			rs, ok := nd.(*ast.ReturnStmt)
			if !ok || len(rs.Results) != 1 {
				return true
			}
			n++
			switch e := unparen(rs.Results[0]).(type) {
			case *ast.CallExpr:
				fn, _ := typeutil.Callee(finfo, e).(*types.Func)
				k, _, ok := p.driverCallee(fn)
				if ok && ((name == "Commit" && k == DrvCommit) || (name == "Rollback" && k == DrvRollback)) && recvOfExpr(finfo, e) == recvName(f)+".Tx" {
					forwards = true
				} else {
					okAll = false
				}
			case *ast.Ident:
				if finfo.Uses[e] != errInvalid {
					okAll = false
				}
			default:
				okAll = false
			}
			return true
		})
		rf.Check(okAll && forwards && n >= 1, f.Name(), "forwards to the wrapped transaction", f.Body.Pos(), "return tx.Tx."+name+"() / ErrInvalidTransaction", "PreparedStmtTX."+name+" does not return the result of the wrapped transaction's "+name)
	}

}
